// LS-sim executor (DESIGN.md §3.3, Appendix A).
//
// This file is *included* into the `parol-ls` binary crate (module `verif_driver`) when the
// crate is built with `--cfg parol_verif`; it therefore sees the crate-private `main_loop`,
// `Config` and `Arguments` and may only use crates parol-ls itself depends on.
//
// Protocol: one run spec per line on stdin (JSON), one run record per line on stdout.
// Everything that could differ between two executions of the same spec is decided here:
// which thread runs at every intercepted point (token passing), which analysis thread
// "crashes", and the per-thread `RandomState` keys.  The oracle is NOT in here.

use crate::verif_sync::{self, Point, Sched};
use lsp_server::{Connection, Message, Notification, Request, RequestId, Response};
use serde_json::{Value, json};
use std::cell::{Cell, RefCell};
use std::collections::BTreeMap;
use std::error::Error;
use std::io::{BufRead, Write};
use std::panic::{AssertUnwindSafe, catch_unwind};
use std::sync::{Arc, Condvar, Mutex, MutexGuard};
use std::time::{Duration, Instant};

// ---------------------------------------------------------------------------
// hash-key seam (same mechanism as /verif/hash-sim/src/seam.rs)
// ---------------------------------------------------------------------------

thread_local! {
    static HASH_KEY: Cell<Option<[u8; 16]>> = const { Cell::new(None) };
    static MY_ID: Cell<usize> = const { Cell::new(usize::MAX) };
    static LAST_PANIC: RefCell<Option<String>> = const { RefCell::new(None) };
}

unsafe extern "C" {
    fn syscall(num: std::ffi::c_long, ...) -> std::ffi::c_long;
    fn fork() -> i32;
    fn dup(fd: i32) -> i32;
    fn dup2(old: i32, new: i32) -> i32;
    fn open(path: *const std::ffi::c_char, flags: i32, ...) -> i32;
    fn mmap(addr: *mut u8, len: usize, prot: i32, flags: i32, fd: i32, off: i64) -> *mut u8;
    fn waitpid(pid: i32, status: *mut i32, options: i32) -> i32;
    fn _exit(code: i32) -> !;
}
const SYS_GETRANDOM: std::ffi::c_long = 318; // x86_64

/// # Safety
/// libc contract of getrandom(2).
#[unsafe(no_mangle)]
pub unsafe extern "C" fn getrandom(buf: *mut u8, len: usize, flags: u32) -> isize {
    if len == 16 && (flags & 0x4) != 0 {
        if let Ok(Some(k)) = HASH_KEY.try_with(|k| k.get()) {
            unsafe { std::ptr::copy_nonoverlapping(k.as_ptr(), buf, 16) };
            return 16;
        }
    }
    unsafe { syscall(SYS_GETRANDOM, buf, len, flags) as isize }
}

fn splitmix(state: &mut u64) -> u64 {
    *state = state.wrapping_add(0x9E37_79B9_7F4A_7C15);
    let mut z = *state;
    z = (z ^ (z >> 30)).wrapping_mul(0xBF58_476D_1CE4_E5B9);
    z = (z ^ (z >> 27)).wrapping_mul(0x94D0_49BB_1331_11EB);
    z ^ (z >> 31)
}

fn set_hash_key(seed: u64, thread_index: u64) {
    let mut s = seed ^ thread_index.wrapping_mul(0xD6E8_FEB8_6659_FD93);
    let a = splitmix(&mut s);
    let b = splitmix(&mut s);
    let mut k = [0u8; 16];
    k[..8].copy_from_slice(&a.to_le_bytes());
    k[8..].copy_from_slice(&b.to_le_bytes());
    HASH_KEY.with(|c| c.set(Some(k)));
    // draw the thread's RandomState keys now
    let _ = std::collections::hash_map::RandomState::new();
}

/// Shared (parent/child) progress counter: number of client messages the forked run has started
/// to handle.  Lets the parent say *which* message was being handled when a child died without a
/// record (stack overflow, abort).
static PROGRESS: std::sync::atomic::AtomicPtr<std::sync::atomic::AtomicU64> =
    std::sync::atomic::AtomicPtr::new(std::ptr::null_mut());

fn progress() -> Option<&'static std::sync::atomic::AtomicU64> {
    let p = PROGRESS.load(std::sync::atomic::Ordering::Relaxed);
    if p.is_null() { None } else { Some(unsafe { &*p }) }
}

struct Prng(u64);
impl Prng {
    fn next(&mut self) -> u64 {
        splitmix(&mut self.0)
    }
    fn below(&mut self, n: u64) -> u64 {
        ((self.next() as u128 * n.max(1) as u128) >> 64) as u64
    }
    fn f64(&mut self) -> f64 {
        (self.next() >> 11) as f64 / (1u64 << 53) as f64
    }
}

// ---------------------------------------------------------------------------
// scheduler state
// ---------------------------------------------------------------------------

#[derive(Clone, Copy, PartialEq, Eq, Debug)]
enum TState {
    /// registered, OS thread parked in child_start
    NotStarted,
    Ready,
    Blocked(u32),
    Exited,
}

struct ThreadSt {
    state: TState,
    spawned_by_op: i64,
    exit: String,
    /// number of MessageBoundary points the main thread had passed when this thread exited
    exit_after_msgs: i64,
    crash: bool,
    /// virtual time (µs) of this thread
    vt: u64,
    prio: u64,
}

#[derive(Clone, Copy, PartialEq, Debug)]
enum Strategy {
    Canonical,
    Explicit,
    Uniform,
    Sticky,
    Pct,
    Timed,
}

// point codes in the decision trace
const P_MSG: u8 = 0;
const P_PUBLISH: u8 = 1;
const P_LOCK: u8 = 2;
const P_UNLOCK: u8 = 3;
const P_SPAWN: u8 = 4;
const P_EXIT: u8 = 5;
const P_START: u8 = 6;

struct Sim {
    current: usize,
    threads: Vec<ThreadSt>,
    locks: BTreeMap<u32, Option<usize>>,
    /// decisions: (point code, deciding thread, enabled bitmask, chosen)
    trace: Vec<(u8, usize, u64, usize)>,
    strategy: Strategy,
    rng: Prng,
    explicit: Vec<usize>,
    explicit_mismatch: bool,
    crash_list: Vec<usize>,
    crash_permille: u64,
    pct_changes: Vec<u64>,
    pct_low: u64,
    arrivals: Vec<u64>,
    done: bool,
    deadlock: bool,
    /// number of MessageBoundary points seen so far
    msgs_seen: usize,
    out: Vec<Value>,
    drain: Option<Box<dyn Fn() -> Vec<Message> + Send>>,
    hash_seed: u64,
    max_live_bg: usize,
    sim_time_us: u64,
}

impl Sim {
    fn new() -> Sim {
        Sim {
            current: usize::MAX,
            threads: vec![],
            locks: BTreeMap::new(),
            trace: vec![],
            strategy: Strategy::Canonical,
            rng: Prng(0),
            explicit: vec![],
            explicit_mismatch: false,
            crash_list: vec![],
            crash_permille: 0,
            pct_changes: vec![],
            pct_low: 1 << 20,
            arrivals: vec![],
            done: false,
            deadlock: false,
            msgs_seen: 0,
            out: vec![],
            drain: None,
            hash_seed: 0,
            max_live_bg: 0,
            sim_time_us: 0,
        }
    }

    fn enabled(&self) -> Vec<usize> {
        self.threads
            .iter()
            .enumerate()
            .filter(|(_, t)| matches!(t.state, TState::NotStarted | TState::Ready))
            .map(|(i, _)| i)
            .collect()
    }

    fn mask(v: &[usize]) -> u64 {
        v.iter().fold(0u64, |m, i| m | (1u64 << (*i).min(63)))
    }

    /// Attribute everything the server sent since the last point to thread `by`.
    fn drain_output(&mut self, by: usize) {
        let msgs = match &self.drain {
            Some(d) => d(),
            None => vec![],
        };
        let step = self.trace.len();
        for m in msgs {
            let v = match m {
                Message::Notification(n) => {
                    if n.method == "textDocument/publishDiagnostics" {
                        json!({
                            "kind": "publish",
                            "uri": n.params.get("uri").cloned().unwrap_or(Value::Null),
                            "version": n.params.get("version").cloned().unwrap_or(Value::Null),
                            "diagnostics": n.params.get("diagnostics").cloned().unwrap_or(Value::Null),
                        })
                    } else {
                        json!({"kind": "notification", "method": n.method})
                    }
                }
                Message::Response(r) => {
                    let rk = match &r.response_result {
                        Err(_) => "error",
                        Ok(Value::Null) => "null",
                        Ok(Value::Array(a)) if a.is_empty() => "empty-array",
                        Ok(Value::Array(_)) => "array",
                        Ok(Value::Object(_)) => "object",
                        Ok(_) => "scalar",
                    };
                    json!({
                        "kind": "response",
                        "id": serde_json::to_value(&r.id).unwrap_or(Value::Null),
                        "error": r.response_result.as_ref().err().map(|e| json!({"code": e.code, "message": e.message})),
                        "result_kind": rk,
                        "result": r.response_result.as_ref().ok(),
                    })
                }
                Message::Request(r) => json!({"kind": "request", "method": r.method}),
            };
            let mut v = v;
            v["by"] = json!(by);
            v["step"] = json!(step);
            v["after_msgs"] = json!(self.msgs_seen);
            self.out.push(v);
        }
    }

    fn canonical_pick(&self, cur: usize, code: u8, en: &[usize]) -> usize {
        // fault-free order: at a message boundary every pending analysis runs to completion
        // first (oldest first); otherwise the current thread continues; at an exit the oldest
        // enabled thread runs.
        if code == P_MSG {
            if let Some(b) = en.iter().find(|i| **i != 0) {
                return *b;
            }
        }
        if en.contains(&cur) {
            return cur;
        }
        en[0]
    }

    fn pick(&mut self, cur: usize, code: u8) -> Option<usize> {
        let en = self.enabled();
        if en.is_empty() {
            return None;
        }
        let live_bg = self
            .threads
            .iter()
            .skip(1)
            .filter(|t| t.state != TState::Exited)
            .count();
        self.max_live_bg = self.max_live_bg.max(live_bg);
        let step = self.trace.len() as u64;
        let chosen = match self.strategy {
            Strategy::Canonical => self.canonical_pick(cur, code, &en),
            Strategy::Explicit => {
                let want = self.explicit.get(self.trace.len()).copied();
                match want {
                    Some(w) if en.contains(&w) => w,
                    _ => {
                        self.explicit_mismatch = true;
                        self.canonical_pick(cur, code, &en)
                    }
                }
            }
            Strategy::Uniform => en[self.rng.below(en.len() as u64) as usize],
            Strategy::Sticky => {
                if en.contains(&cur) && self.rng.below(4) != 0 {
                    cur
                } else {
                    en[self.rng.below(en.len() as u64) as usize]
                }
            }
            Strategy::Pct => {
                if self.pct_changes.contains(&step) && cur < self.threads.len() {
                    self.pct_low -= 1;
                    self.threads[cur].prio = self.pct_low;
                }
                *en.iter().max_by_key(|i| (self.threads[**i].prio, usize::MAX - **i)).unwrap()
            }
            Strategy::Timed => *en.iter().min_by_key(|i| (self.threads[**i].vt, **i)).unwrap(),
        };
        self.trace.push((code, cur, Self::mask(&en), chosen));
        Some(chosen)
    }
}

static SIM: Mutex<Option<Sim>> = Mutex::new(None);
static CV: Condvar = Condvar::new();

fn lock_sim() -> MutexGuard<'static, Option<Sim>> {
    match SIM.lock() {
        Ok(g) => g,
        Err(p) => p.into_inner(),
    }
}

/// Hand the token to `next` and block the calling thread `me` until it holds the token again.
fn handoff_and_wait(mut g: MutexGuard<'static, Option<Sim>>, me: usize, next: usize) -> MutexGuard<'static, Option<Sim>> {
    if next != me {
        g.as_mut().unwrap().current = next;
        CV.notify_all();
        while g.as_ref().map(|s| s.current) != Some(me) {
            g = match CV.wait(g) {
                Ok(g) => g,
                Err(p) => p.into_inner(),
            };
        }
    }
    g
}

struct TokenSched;

impl TokenSched {
    fn me() -> usize {
        MY_ID.with(|c| c.get())
    }

    fn at_point(&self, code: u8, lock: Option<u32>) {
        let me = Self::me();
        let mut g = lock_sim();
        if g.is_none() || me == usize::MAX {
            return; // no run in progress (or a thread the simulator does not know)
        }
        {
            let s = g.as_mut().unwrap();
            s.drain_output(me);
            match code {
                P_MSG => {
                    let j = s.msgs_seen;
                    s.msgs_seen += 1;
                    if let Some(p) = progress() {
                        p.store(s.msgs_seen as u64, std::sync::atomic::Ordering::SeqCst);
                    }
                    if s.strategy == Strategy::Timed {
                        // handling the previous message cost 1 ms; message j arrives at arrivals[j]
                        let arr = s.arrivals.get(j).copied().unwrap_or(0);
                        let t = &mut s.threads[0];
                        t.vt = (t.vt + 1000).max(arr);
                    }
                }
                P_UNLOCK => {
                    let l = lock.unwrap();
                    s.locks.insert(l, None);
                    for t in s.threads.iter_mut() {
                        if t.state == TState::Blocked(l) {
                            t.state = TState::Ready;
                        }
                    }
                }
                _ => {}
            }
        }
        loop {
            if code == P_LOCK {
                let l = lock.unwrap();
                let s = g.as_mut().unwrap();
                let owner = s.locks.get(&l).copied().flatten();
                if owner.is_some() && owner != Some(me) {
                    s.threads[me].state = TState::Blocked(l);
                }
            }
            let next = {
                let s = g.as_mut().unwrap();
                match s.pick(me, code) {
                    Some(n) => n,
                    None => {
                        s.deadlock = true;
                        CV.notify_all();
                        // park forever; the driver reports the deadlock and exits the process
                        loop {
                            g = match CV.wait(g) {
                                Ok(g) => g,
                                Err(p) => p.into_inner(),
                            };
                        }
                    }
                }
            };
            g = handoff_and_wait(g, me, next);
            if code == P_LOCK {
                let l = lock.unwrap();
                let s = g.as_mut().unwrap();
                let owner = s.locks.get(&l).copied().flatten();
                if owner.is_none() || owner == Some(me) {
                    s.locks.insert(l, Some(me));
                    s.threads[me].state = TState::Ready;
                    break;
                }
                // somebody else took the lock in between: block again
                continue;
            }
            break;
        }
    }
}

impl Sched for TokenSched {
    fn point(&self, p: Point) {
        match p {
            Point::MessageBoundary => self.at_point(P_MSG, None),
            Point::BeforePublish => self.at_point(P_PUBLISH, None),
            Point::LockAcquire(l) => self.at_point(P_LOCK, Some(l)),
            Point::LockReleased(l) => self.at_point(P_UNLOCK, Some(l)),
        }
    }

    fn register_child(&self) -> usize {
        let mut g = lock_sim();
        let Some(s) = g.as_mut() else { return usize::MAX };
        let id = s.threads.len();
        let parent_vt = s.threads[0].vt;
        let crash = match s.strategy {
            Strategy::Explicit | Strategy::Canonical => s.crash_list.contains(&id),
            _ => s.crash_permille > 0 && s.rng.below(1000) < s.crash_permille,
        };
        // analysis duration: log-uniform in 0.1 ms .. 20 s
        let dur = {
            let x = s.rng.f64();
            (100.0 * (200_000.0f64).powf(x)) as u64
        };
        let prio = (1 << 20) + 1 + s.rng.below(1 << 20);
        s.threads.push(ThreadSt {
            state: TState::NotStarted,
            spawned_by_op: s.msgs_seen as i64 - 1,
            exit: String::new(),
            exit_after_msgs: -1,
            crash,
            vt: parent_vt + dur,
            prio,
        });
        id
    }

    fn spawned(&self, _child: usize) {
        self.at_point(P_SPAWN, None);
    }

    fn child_start(&self, child: usize) -> bool {
        let mut g = lock_sim();
        if g.is_none() || child == usize::MAX {
            return true;
        }
        while g.as_ref().map(|s| s.current) != Some(child) {
            g = match CV.wait(g) {
                Ok(g) => g,
                Err(p) => p.into_inner(),
            };
        }
        MY_ID.with(|c| c.set(child));
        let s = g.as_mut().unwrap();
        s.threads[child].state = TState::Ready;
        let seed = s.hash_seed;
        let crash = s.threads[child].crash;
        drop(g);
        set_hash_key(seed, child as u64);
        let _ = P_START;
        !crash
    }

    fn child_exit(&self, child: usize, panicked: bool) {
        if child == usize::MAX {
            return;
        }
        thread_exit(child, if panicked { take_panic().unwrap_or_else(|| "panic".into()) } else { "ok".into() });
    }
}

fn take_panic() -> Option<String> {
    LAST_PANIC.with(|p| p.borrow_mut().take())
}

fn thread_exit(id: usize, how: String) {
    let mut g = lock_sim();
    let Some(s) = g.as_mut() else { return };
    s.drain_output(id);
    s.threads[id].state = TState::Exited;
    s.threads[id].exit = if s.threads[id].crash && id != 0 { "injected_crash".into() } else { how };
    s.threads[id].exit_after_msgs = s.msgs_seen as i64;
    let vt = s.threads[id].vt;
    s.sim_time_us = s.sim_time_us.max(vt);
    if s.threads.iter().all(|t| t.state == TState::Exited) {
        s.done = true;
        s.current = usize::MAX;
        CV.notify_all();
        return;
    }
    match s.pick(id, P_EXIT) {
        Some(n) => {
            s.current = n;
            CV.notify_all();
        }
        None => {
            s.deadlock = true;
            CV.notify_all();
        }
    }
}

// ---------------------------------------------------------------------------
// one run
// ---------------------------------------------------------------------------

fn op_to_message(op: &Value) -> Result<Message, String> {
    let t = op["t"].as_str().unwrap_or("");
    let uri = op["uri"].clone();
    Ok(match t {
        "open" => Message::Notification(Notification {
            method: "textDocument/didOpen".into(),
            params: json!({"textDocument": {"uri": uri, "languageId": "parol", "version": op["version"], "text": op["text"]}}),
        }),
        "change" => {
            let changes: Vec<Value> = match op.get("changes").and_then(|c| c.as_array()) {
                Some(a) => a.iter().map(|t| json!({"text": t})).collect(),
                None => vec![json!({"text": op["text"]})],
            };
            Message::Notification(Notification {
                method: "textDocument/didChange".into(),
                params: json!({"textDocument": {"uri": uri, "version": op["version"]}, "contentChanges": changes}),
            })
        }
        "close" => Message::Notification(Notification {
            method: "textDocument/didClose".into(),
            params: json!({"textDocument": {"uri": uri}}),
        }),
        "config" => Message::Notification(Notification {
            method: "workspace/didChangeConfiguration".into(),
            params: json!({"settings": op["settings"]}),
        }),
        "notify" => Message::Notification(Notification {
            method: op["method"].as_str().unwrap_or("$/unknown").into(),
            params: op["params"].clone(),
        }),
        "req" => Message::Request(Request {
            id: RequestId::from(op["id"].as_i64().unwrap_or(0) as i32),
            method: op["method"].as_str().unwrap_or("").into(),
            params: op["params"].clone(),
        }),
        "resp" => Message::Response(Response::new_ok(
            RequestId::from(op["id"].as_i64().unwrap_or(0) as i32),
            Value::Null,
        )),
        other => return Err(format!("unknown op kind {other:?}")),
    })
}

fn fnv(bytes: &[u8]) -> u64 {
    let mut h = 0xcbf2_9ce4_8422_2325u64;
    for b in bytes {
        h ^= *b as u64;
        h = h.wrapping_mul(0x0000_0100_0000_01B3);
    }
    h
}

const WATCHDOG: Duration = Duration::from_secs(30);

fn run_one(spec: &Value) -> Value {
    let run = spec["run"].clone();
    let ops: Vec<Value> = spec["ops"].as_array().cloned().unwrap_or_default();
    let max_k = spec["max_k"].as_u64().unwrap_or(3);
    let hash_seed = spec["hash_seed"].as_u64().unwrap_or(1);
    let sched = &spec["sched"];

    // --- scheduler configuration -------------------------------------------------
    let mut sim = Sim::new();
    sim.hash_seed = hash_seed;
    let mode = sched["mode"].as_str().unwrap_or("canonical");
    match mode {
        "explicit" => {
            sim.strategy = Strategy::Explicit;
            sim.explicit = sched["choices"]
                .as_array()
                .map(|a| a.iter().map(|v| v.as_u64().unwrap_or(0) as usize).collect())
                .unwrap_or_default();
            sim.crash_list = sched["crash"]
                .as_array()
                .map(|a| a.iter().map(|v| v.as_u64().unwrap_or(0) as usize).collect())
                .unwrap_or_default();
        }
        "seed" => {
            let seed = sched["seed"].as_u64().unwrap_or(0);
            sim.rng = Prng(seed ^ 0xA076_1D64_78BD_642F);
            sim.strategy = match sched["strategy"].as_str().unwrap_or("uniform") {
                "uniform" => Strategy::Uniform,
                "sticky" => Strategy::Sticky,
                "pct" => Strategy::Pct,
                "timed" => Strategy::Timed,
                _ => Strategy::Uniform,
            };
            sim.crash_permille = sched["bg_crash_permille"].as_u64().unwrap_or(0);
            if sim.strategy == Strategy::Pct {
                let d = sched["pct_depth"].as_u64().unwrap_or(2);
                let est = 6 * ops.len() as u64 + 8;
                for _ in 0..d {
                    let c = sim.rng.below(est);
                    sim.pct_changes.push(c);
                }
            }
            if sim.strategy == Strategy::Timed {
                // inter-arrival times: exponential, mean from the spec (default 150 ms)
                let mean = sched["mean_gap_us"].as_u64().unwrap_or(150_000) as f64;
                let mut t = 0u64;
                for _ in 0..ops.len() {
                    let u = sim.rng.f64().max(1e-12);
                    t += (-mean * u.ln()) as u64;
                    sim.arrivals.push(t);
                }
            }
        }
        _ => {
            sim.strategy = Strategy::Canonical;
            sim.crash_list = sched["crash"]
                .as_array()
                .map(|a| a.iter().map(|v| v.as_u64().unwrap_or(0) as usize).collect())
                .unwrap_or_default();
        }
    }
    let prio0 = (1 << 20) + 1 + sim.rng.below(1 << 20);
    sim.threads.push(ThreadSt {
        state: TState::NotStarted,
        spawned_by_op: -1,
        exit: String::new(),
        exit_after_msgs: -1,
        crash: false,
        vt: 0,
        prio: prio0,
    });

    // --- connection: pre-load the whole client -> server history -----------------
    let (server_conn, client_conn) = Connection::memory();
    let mut bad_op = None;
    for op in &ops {
        match op_to_message(op) {
            Ok(m) => {
                let _ = client_conn.sender.send(m);
            }
            Err(e) => bad_op = Some(e),
        }
    }
    if let Some(e) = bad_op {
        return json!({"run": run, "harness_error": e});
    }
    let Connection { sender: client_sender, receiver: client_receiver } = client_conn;
    drop(client_sender); // the server's receive loop ends when the queue is drained
    sim.drain = Some(Box::new(move || client_receiver.try_iter().collect()));

    let mut init = spec.get("init").cloned().unwrap_or_else(|| json!({"capabilities": {}}));
    if init.get("capabilities").is_none() {
        init["capabilities"] = json!({});
    }
    let init_params: lsp_types::InitializeParams = match serde_json::from_value(init) {
        Ok(p) => p,
        Err(e) => return json!({"run": run, "harness_error": format!("init params: {e}")}),
    };
    let args = <crate::arguments::Arguments as clap::Parser>::parse_from([
        "parol-ls".to_string(),
        "--stdio".to_string(),
        "-k".to_string(),
        max_k.to_string(),
    ]);
    let config = crate::config::Config::new(init_params, args);

    *lock_sim() = Some(sim);

    // --- main-loop thread M (id 0) ------------------------------------------------
    let server_conn = Arc::new(server_conn);
    let m = std::thread::Builder::new()
        .name("sim-main".into())
        .spawn(move || {
            // wait for the token
            {
                let mut g = lock_sim();
                while g.as_ref().map(|s| s.current) != Some(0) {
                    g = match CV.wait(g) {
                        Ok(g) => g,
                        Err(p) => p.into_inner(),
                    };
                }
                g.as_mut().unwrap().threads[0].state = TState::Ready;
            }
            MY_ID.with(|c| c.set(0));
            set_hash_key(hash_seed, 0);
            let r = catch_unwind(AssertUnwindSafe(|| crate::main_loop(server_conn, config)));
            let how = match r {
                Ok(Ok(())) => "ok".to_string(),
                Ok(Err(e)) => format!("err:{e}"),
                Err(_) => format!("panic:{}", take_panic().unwrap_or_default()),
            };
            thread_exit(0, how);
        })
        .expect("spawn sim-main");

    // --- start and wait for quiescence -------------------------------------------
    let t0 = Instant::now();
    let mut watchdog = false;
    {
        let mut g = lock_sim();
        {
            let s = g.as_mut().unwrap();
            s.trace.push((P_START, 0, 1, 0));
            s.current = 0;
        }
        CV.notify_all();
        loop {
            let s = g.as_ref().unwrap();
            if s.done || s.deadlock {
                break;
            }
            if t0.elapsed() > WATCHDOG {
                watchdog = true;
                break;
            }
            g = match CV.wait_timeout(g, Duration::from_millis(500)) {
                Ok((g, _)) => g,
                Err(p) => p.into_inner().0,
            };
        }
    }
    if !watchdog {
        let dl = lock_sim().as_ref().map(|s| s.deadlock).unwrap_or(false);
        if !dl {
            let _ = m.join();
        }
    }
    let mut sim = lock_sim().take().unwrap();
    sim.drain_output(usize::MAX - 1); // anything left (must be nothing)

    // --- record --------------------------------------------------------------------
    let main_exit = sim.threads[0].exit.clone();
    let msgs_seen = sim.msgs_seen;
    let threads: Vec<Value> = sim
        .threads
        .iter()
        .enumerate()
        .skip(1)
        .map(|(i, t)| json!({"id": i, "spawned_by_op": t.spawned_by_op, "exit": t.exit, "exit_after_msgs": t.exit_after_msgs, "vt_us": t.vt}))
        .collect();
    let decisions: Vec<Value> = sim
        .trace
        .iter()
        .map(|(c, t, m, ch)| json!([c, t, m, ch]))
        .collect();
    let choices: Vec<usize> = sim.trace.iter().map(|d| d.3).collect();
    let crashed: Vec<usize> = sim
        .threads
        .iter()
        .enumerate()
        .filter(|(_, t)| t.crash)
        .map(|(i, _)| i)
        .collect();
    let mut rec = json!({
        "run": run,
        "decisions": decisions,
        "choices": choices,
        "crashed": crashed,
        "out": sim.out,
        "threads": threads,
        "main": {"exit": main_exit, "msgs_seen": msgs_seen, "n_ops": ops.len()},
        "deadlock": sim.deadlock,
        "watchdog": watchdog,
        "explicit_mismatch": sim.explicit_mismatch,
        "sim_time_us": sim.sim_time_us,
        "steps": sim.trace.len(),
        "max_live_bg": sim.max_live_bg,
    });
    // event-log hash: everything observable plus every scheduling decision; virtual times and
    // the run id are left out (they are bookkeeping of the seeded strategies, absent on replay)
    let canon = serde_json::to_string(&json!({
        "decisions": rec["decisions"], "crashed": rec["crashed"], "out": rec["out"],
        "threads": rec["threads"].as_array().map(|a| a.iter().map(|t| json!([t["id"], t["spawned_by_op"], t["exit"]])).collect::<Vec<_>>()),
        "main": rec["main"], "deadlock": rec["deadlock"],
    }))
    .unwrap_or_default();
    rec["log_hash"] = json!(format!("{:016x}", fnv(canon.as_bytes())));
    rec
}

pub fn main() -> Result<(), Box<dyn Error>> {
    // The analysis prints LALR conflict reports to stdout: keep the record stream on a
    // descriptor of our own and point fd 1 at /dev/null.
    let mut proto: std::fs::File = unsafe {
        let saved = dup(1);
        let devnull = open(c"/dev/null".as_ptr(), 1 /* O_WRONLY */);
        if saved < 0 || devnull < 0 {
            return Err("cannot set up the record stream".into());
        }
        dup2(devnull, 1);
        <std::fs::File as std::os::fd::FromRawFd>::from_raw_fd(saved)
    };
    verif_sync::install(Box::new(TokenSched));
    std::panic::set_hook(Box::new(|info| {
        let msg = if let Some(s) = info.payload().downcast_ref::<&str>() {
            s.to_string()
        } else if let Some(s) = info.payload().downcast_ref::<String>() {
            s.clone()
        } else {
            "<non-string panic>".to_string()
        };
        let loc = info
            .location()
            .map(|l| format!("{}:{}", l.file(), l.line()))
            .unwrap_or_default();
        // innermost frame that belongs to the server (panics raised inside core/std - slicing,
        // split_at, unwrap - carry a location in the standard library)
        let bt = std::backtrace::Backtrace::force_capture().to_string();
        let frame = bt
            .lines()
            .map(|l| l.trim())
            .filter(|l| (l.contains("parol_ls::") || l.contains("parol::") || l.contains("parol_runtime::")) && !l.contains("verif_driver") && !l.contains("verif_sync"))
            .map(|l| l.split_once(": ").map(|x| x.1).unwrap_or(l).to_string())
            .next()
            .unwrap_or_default();
        let _ = LAST_PANIC.try_with(|p| {
            if let Ok(mut p) = p.try_borrow_mut() {
                *p = Some(format!("{msg} [in {frame}] @ {loc}"));
            }
        });
    }));
    // Optional warm-up in the parent (one fixed history under a fixed hash key, all threads
    // finished before the first fork): every child then inherits the *same* initialised
    // process-global state.  Measured: forking the warmed (larger) parent costs more than the
    // initialisation it saves, so it is off by default.
    if std::env::var_os("PAROL_LS_SIM_WARMUP").is_some() {
        let u = "file:///warmup.par";
        let pos = json!({"line": 2, "character": 1});
        let warm = json!({"run": "warmup", "hash_seed": 7, "max_k": 2, "sched": {"mode": "canonical"}, "ops": [
            {"t": "open", "uri": u, "version": 1, "text": "%start S\n%%\nS: A \"x\" | B \"y\"; // c\nA: \"a\" A | ;\nB: \"a\" B | ;\n"},
            {"t": "req", "id": 1, "method": "textDocument/hover", "params": {"textDocument": {"uri": u}, "position": pos}},
            {"t": "req", "id": 2, "method": "textDocument/definition", "params": {"textDocument": {"uri": u}, "position": pos}},
            {"t": "req", "id": 3, "method": "textDocument/documentSymbol", "params": {"textDocument": {"uri": u}}},
            {"t": "req", "id": 4, "method": "textDocument/prepareRename", "params": {"textDocument": {"uri": u}, "position": pos}},
            {"t": "req", "id": 5, "method": "textDocument/rename", "params": {"textDocument": {"uri": u}, "position": pos, "newName": "Q"}},
            {"t": "req", "id": 6, "method": "textDocument/formatting", "params": {"textDocument": {"uri": u}, "options": {"tabSize": 4, "insertSpaces": true}}},
            {"t": "req", "id": 7, "method": "textDocument/codeAction", "params": {"textDocument": {"uri": u}, "range": {"start": pos, "end": pos}, "context": {"diagnostics": [{"range": {"start": pos, "end": pos}, "message": "scanner 'X'", "code": "parol::parser::token_not_in_scanner"}]}}},
            {"t": "change", "uri": u, "version": 2, "text": "%start S\n%grammar_type 'lalr(1)'\n%%\nS: \"i\" S | \"i\" S \"e\" S | \"x\";\n"},
            {"t": "change", "uri": u, "version": 3, "text": "%start S\n%%\nS: S \"a\" | ;;\n"},
            {"t": "close", "uri": u}
        ]});
        let _ = run_one(&warm);
    }
    unsafe {
        // PROT_READ|PROT_WRITE = 3, MAP_SHARED|MAP_ANONYMOUS = 0x21
        let m = mmap(std::ptr::null_mut(), 4096, 3, 0x21, -1, 0);
        if !m.is_null() && m as isize != -1 {
            PROGRESS.store(m as *mut std::sync::atomic::AtomicU64, std::sync::atomic::Ordering::Relaxed);
        }
    }
    let stdin = std::io::stdin();
    for line in stdin.lock().lines() {
        let line = line?;
        if line.trim().is_empty() {
            continue;
        }
        let spec: Value = match serde_json::from_str(&line) {
            Ok(v) => v,
            Err(e) => {
                writeln!(proto, "{}", json!({"harness_error": format!("bad spec: {e}")}))?;
                proto.flush()?;
                continue;
            }
        };
        // Every run executes in a fresh child forked from this (single-threaded, pristine)
        // process: process-global lazily initialised state (compiled regexes, scanner tables,
        // ...) would otherwise make a run depend on which runs the process executed before
        // (their initialisation draws RandomState keys on whichever thread comes first).
        // It also means that parked threads of a deadlocked run simply vanish with the child.
        if let Some(p) = progress() {
            p.store(0, std::sync::atomic::Ordering::SeqCst);
        }
        let pid = unsafe { fork() };
        if pid == 0 {
            let rec = run_one(&spec);
            let fatal = rec["watchdog"].as_bool() == Some(true) || rec["deadlock"].as_bool() == Some(true);
            let _ = writeln!(proto, "{}", serde_json::to_string(&rec).unwrap_or_default());
            let _ = proto.flush();
            unsafe { _exit(if fatal { 3 } else { 0 }) };
        } else if pid > 0 {
            let mut status = 0i32;
            unsafe { waitpid(pid, &mut status, 0) };
            let exited_ok = (status & 0x7f) == 0 && matches!((status >> 8) & 0xff, 0 | 3);
            if !exited_ok {
                // the child died without writing a record (abort, stack overflow, signal)
                let seen = progress().map(|p| p.load(std::sync::atomic::Ordering::SeqCst)).unwrap_or(0);
                writeln!(proto, "{}", json!({"run": spec["run"], "child_died": status,
                    "main": {"exit": format!("panic:the server process died without unwinding (wait status {status}: stack overflow or abort) [in ] @ process-abort"), "msgs_seen": seen, "n_ops": spec["ops"].as_array().map(|a| a.len())},
                    "out": [], "threads": [], "decisions": [], "choices": [], "crashed": [], "deadlock": false, "watchdog": false,
                    "log_hash": format!("died-{status}-{seen}")}))?;
                proto.flush()?;
            }
        } else {
            writeln!(proto, "{}", json!({"harness_error": "fork failed"}))?;
            proto.flush()?;
        }
    }
    Ok(())
}
