//! Common kernel of the deterministic simulators in /verif (DESIGN.md §2).
//!
//! One integer (`VERIF_SEED`) decides everything: every engine derives the
//! PRNG of run *i* as `Rng::for_run(seed, engine_id, i)`.  Nothing in here
//! reads a clock or draws from a PRNG on a logging path.

use serde::{Deserialize, Serialize};
use serde_json::{json, Value};
use std::collections::BTreeMap;
use std::path::{Path, PathBuf};
use std::sync::atomic::{AtomicUsize, Ordering};
use std::sync::Mutex;

pub const DEFAULT_SEED: u64 = 20260921;

/// Exit codes shared by all engines.
pub const EXIT_OK: i32 = 0;
pub const EXIT_VIOLATION: i32 = 1;
pub const EXIT_HARNESS: i32 = 2;

// ---------------------------------------------------------------------------
// PRNG: SplitMix64 seeding a xoshiro256**
// ---------------------------------------------------------------------------

#[inline]
pub fn splitmix64(state: &mut u64) -> u64 {
    *state = state.wrapping_add(0x9E37_79B9_7F4A_7C15);
    let mut z = *state;
    z = (z ^ (z >> 30)).wrapping_mul(0xBF58_476D_1CE4_E5B9);
    z = (z ^ (z >> 27)).wrapping_mul(0x94D0_49BB_1331_11EB);
    z ^ (z >> 31)
}

/// Mixes several integers into one 64-bit value (order dependent).
pub fn mix(parts: &[u64]) -> u64 {
    let mut s = 0x243F_6A88_85A3_08D3u64;
    let mut out = 0u64;
    for p in parts {
        s ^= *p;
        out = splitmix64(&mut s) ^ out.rotate_left(17);
    }
    let mut t = out;
    splitmix64(&mut t)
}

#[derive(Clone, Debug)]
pub struct Rng {
    s: [u64; 4],
}

impl Rng {
    pub fn new(seed: u64) -> Self {
        let mut sm = seed;
        let s = [
            splitmix64(&mut sm),
            splitmix64(&mut sm),
            splitmix64(&mut sm),
            splitmix64(&mut sm),
        ];
        Rng { s }
    }

    pub fn for_run(seed: u64, engine: u64, run: u64) -> Self {
        Rng::new(mix(&[seed, engine, run]))
    }

    #[inline]
    pub fn next_u64(&mut self) -> u64 {
        let result = self.s[1].wrapping_mul(5).rotate_left(7).wrapping_mul(9);
        let t = self.s[1] << 17;
        self.s[2] ^= self.s[0];
        self.s[3] ^= self.s[1];
        self.s[1] ^= self.s[2];
        self.s[0] ^= self.s[3];
        self.s[2] ^= t;
        self.s[3] = self.s[3].rotate_left(45);
        result
    }

    /// Uniform in 0..n (n > 0).
    #[inline]
    pub fn below(&mut self, n: u64) -> u64 {
        debug_assert!(n > 0);
        // Lemire's multiply-shift without rejection: bias < 2^-32 for the n used here.
        ((self.next_u64() as u128 * n as u128) >> 64) as u64
    }

    #[inline]
    pub fn range(&mut self, lo: u64, hi_incl: u64) -> u64 {
        lo + self.below(hi_incl - lo + 1)
    }

    #[inline]
    pub fn usize_below(&mut self, n: usize) -> usize {
        self.below(n as u64) as usize
    }

    /// true with probability num/den
    #[inline]
    pub fn chance(&mut self, num: u64, den: u64) -> bool {
        self.below(den) < num
    }

    pub fn f64(&mut self) -> f64 {
        (self.next_u64() >> 11) as f64 / (1u64 << 53) as f64
    }

    pub fn pick<'a, T>(&mut self, v: &'a [T]) -> &'a T {
        &v[self.usize_below(v.len())]
    }

    pub fn shuffle<T>(&mut self, v: &mut [T]) {
        for i in (1..v.len()).rev() {
            let j = self.usize_below(i + 1);
            v.swap(i, j);
        }
    }

    /// Pick an index according to integer weights.
    pub fn weighted(&mut self, weights: &[u64]) -> usize {
        let total: u64 = weights.iter().sum();
        let mut x = self.below(total.max(1));
        for (i, w) in weights.iter().enumerate() {
            if x < *w {
                return i;
            }
            x -= *w;
        }
        weights.len() - 1
    }
}

// ---------------------------------------------------------------------------
// FNV-1a (event-log hashes)
// ---------------------------------------------------------------------------

#[derive(Clone, Copy)]
pub struct Fnv(pub u64);

impl Default for Fnv {
    fn default() -> Self {
        Fnv(0xcbf2_9ce4_8422_2325)
    }
}

impl Fnv {
    pub fn new() -> Self {
        Self::default()
    }
    pub fn write(&mut self, bytes: &[u8]) {
        for b in bytes {
            self.0 ^= *b as u64;
            self.0 = self.0.wrapping_mul(0x0000_0100_0000_01B3);
        }
    }
    pub fn write_u64(&mut self, v: u64) {
        self.write(&v.to_le_bytes());
    }
    pub fn write_str(&mut self, s: &str) {
        self.write_u64(s.len() as u64);
        self.write(s.as_bytes());
    }
    pub fn hex(&self) -> String {
        format!("{:016x}", self.0)
    }
}

pub fn fnv_hex(bytes: &[u8]) -> String {
    let mut f = Fnv::new();
    f.write(bytes);
    f.hex()
}

// ---------------------------------------------------------------------------
// Environment / command line shared by the engines
// ---------------------------------------------------------------------------

#[derive(Clone, Copy, Debug, PartialEq, Eq)]
pub enum Tier {
    Quick,
    Thorough,
}

impl Tier {
    pub fn as_str(&self) -> &'static str {
        match self {
            Tier::Quick => "quick",
            Tier::Thorough => "thorough",
        }
    }
}

pub fn env_seed() -> u64 {
    match std::env::var("VERIF_SEED") {
        Ok(s) => s
            .trim()
            .parse::<u64>()
            .or_else(|_| s.trim().parse::<i64>().map(|v| v as u64))
            .unwrap_or_else(|_| {
                // any string is accepted: hash it
                let mut f = Fnv::new();
                f.write(s.as_bytes());
                f.0
            }),
        Err(_) => DEFAULT_SEED,
    }
}

pub fn env_tier() -> Tier {
    match std::env::var("VERIF_TIER").as_deref() {
        Ok("thorough") => Tier::Thorough,
        _ => Tier::Quick,
    }
}

pub fn env_workers() -> usize {
    std::env::var("VERIF_WORKERS")
        .ok()
        .and_then(|s| s.parse().ok())
        .unwrap_or_else(|| {
            std::thread::available_parallelism()
                .map(|n| n.get())
                .unwrap_or(4)
        })
        .max(1)
}

pub fn verif_root() -> PathBuf {
    std::env::var_os("VERIF_ROOT")
        .map(PathBuf::from)
        .unwrap_or_else(|| PathBuf::from("/verif"))
}

pub fn repo_root() -> PathBuf {
    std::env::var_os("VERIF_REPO")
        .map(PathBuf::from)
        .unwrap_or_else(|| PathBuf::from("/repo"))
}

// ---------------------------------------------------------------------------
// Parallel map with a fixed result order (determinism at any worker count)
// ---------------------------------------------------------------------------

/// Runs `f(i)` for i in 0..n on `workers` OS threads (each with `stack` bytes of
/// stack) and returns the results in index order.  Which worker executes which
/// index is *not* deterministic; `f` must therefore be a pure function of `i`.
pub fn par_map<T, F>(n: usize, workers: usize, stack: usize, f: F) -> Vec<T>
where
    T: Send,
    F: Fn(usize) -> T + Sync,
{
    let next = AtomicUsize::new(0);
    let out: Mutex<Vec<Option<T>>> = Mutex::new((0..n).map(|_| None).collect());
    std::thread::scope(|scope| {
        for w in 0..workers.min(n.max(1)) {
            let next = &next;
            let out = &out;
            let f = &f;
            std::thread::Builder::new()
                .name(format!("worker-{w}"))
                .stack_size(stack)
                .spawn_scoped(scope, move || loop {
                    let i = next.fetch_add(1, Ordering::SeqCst);
                    if i >= n {
                        break;
                    }
                    let r = f(i);
                    out.lock().unwrap()[i] = Some(r);
                })
                .expect("spawn worker");
        }
    });
    out.into_inner()
        .unwrap()
        .into_iter()
        .map(|o| o.expect("worker result"))
        .collect()
}

// ---------------------------------------------------------------------------
// Known findings (committed file, never written at run time)
// ---------------------------------------------------------------------------

#[derive(Clone, Debug, Serialize, Deserialize)]
pub struct KnownFinding {
    /// "open" (suppresses exactly the listed failing case) or "fixed" (suppresses nothing)
    pub status: String,
    pub property: String,
    /// violation signature class the engine assigns
    pub class: String,
    /// engine specific key identifying the failing input / call site / history
    #[serde(default)]
    pub key: String,
    #[serde(default)]
    pub what: String,
    #[serde(default)]
    pub commit: String,
}

/// File format (`/verif/known_findings.txt`, committed, never written at run time):
///
/// ```text
/// open: property=<id> class=<signature class> key=<failing input / call site / history> :: <what fails>
/// fixed: property=<id> <commit> <what failed>
/// ```
///
/// `open` entries suppress exactly the listed (class, key); `fixed` entries suppress nothing.
pub fn load_known_findings(property: &str) -> Vec<KnownFinding> {
    let p = verif_root().join("known_findings.txt");
    let Ok(text) = std::fs::read_to_string(&p) else {
        return vec![];
    };
    let mut out = vec![];
    for l in text.lines() {
        let l = l.trim();
        if l.is_empty() || l.starts_with('#') {
            continue;
        }
        let (status, rest) = if let Some(r) = l.strip_prefix("open:") {
            ("open", r.trim())
        } else if let Some(r) = l.strip_prefix("fixed:") {
            ("fixed", r.trim())
        } else {
            eprintln!("known_findings.txt: unreadable line: {l}");
            continue;
        };
        let (head, what) = match rest.split_once(" :: ") {
            Some((h, w)) => (h, w.to_string()),
            None => (rest, String::new()),
        };
        let mut k = KnownFinding {
            status: status.to_string(),
            property: String::new(),
            class: String::new(),
            key: String::new(),
            what,
            commit: String::new(),
        };
        let mut free = vec![];
        for tok in head.split_whitespace() {
            if let Some(v) = tok.strip_prefix("property=") {
                k.property = v.to_string();
            } else if let Some(v) = tok.strip_prefix("class=") {
                k.class = v.to_string();
            } else if let Some(v) = tok.strip_prefix("key=") {
                k.key = v.to_string();
            } else {
                free.push(tok);
            }
        }
        if status == "fixed" {
            if let Some(c) = free.first() {
                k.commit = c.to_string();
            }
            if k.what.is_empty() {
                k.what = free.iter().skip(1).cloned().collect::<Vec<_>>().join(" ");
            }
        }
        if k.property == property {
            out.push(k);
        }
    }
    out
}

// ---------------------------------------------------------------------------
// Evidence
// ---------------------------------------------------------------------------

pub struct Evidence {
    pub property: String,
    pub tier: Tier,
    pub seed: u64,
    pub evaluations: u64,
    pub distinct_nontrivial: u64,
    pub rule: String,
    pub samples: Vec<Value>,
    pub extra: BTreeMap<String, Value>,
    pub assumptions: Vec<String>,
    pub wall_s: f64,
    pub violations: u64,
}

impl Evidence {
    pub fn new(property: &str, tier: Tier, seed: u64) -> Self {
        Evidence {
            property: property.to_string(),
            tier,
            seed,
            evaluations: 0,
            distinct_nontrivial: 0,
            rule: String::new(),
            samples: vec![],
            extra: BTreeMap::new(),
            assumptions: vec![],
            wall_s: 0.0,
            violations: 0,
        }
    }

    pub fn set(&mut self, key: &str, v: Value) {
        self.extra.insert(key.to_string(), v);
    }

    pub fn to_json(&self) -> Value {
        let mut coverage = serde_json::Map::new();
        coverage.insert("evaluations".into(), json!(self.evaluations));
        coverage.insert("distinct_nontrivial".into(), json!(self.distinct_nontrivial));
        coverage.insert("rule".into(), json!(self.rule));
        coverage.insert("samples".into(), json!(self.samples));
        for (k, v) in &self.extra {
            coverage.insert(k.clone(), v.clone());
        }
        json!({
            "property_id": self.property,
            "tier": self.tier.as_str(),
            // the schema wants an integer; keep it in the i64 range
            "seed": (self.seed & 0x7fff_ffff_ffff_ffff) as i64,
            "level": "exploration",
            "coverage": Value::Object(coverage),
            "assumptions": self.assumptions,
            "wall_s": (self.wall_s * 1000.0).round() / 1000.0,
            "violations": self.violations,
        })
    }

    pub fn write(&self) -> std::io::Result<PathBuf> {
        let dir = verif_root().join("evidence");
        std::fs::create_dir_all(&dir)?;
        let path = dir.join(format!("{}.json", self.property));
        let tmp = dir.join(format!(".{}.json.tmp", self.property));
        std::fs::write(&tmp, serde_json::to_string_pretty(&self.to_json()).unwrap() + "\n")?;
        std::fs::rename(&tmp, &path)?;
        Ok(path)
    }
}

// ---------------------------------------------------------------------------
// Replay files
// ---------------------------------------------------------------------------

pub fn write_replay(property: &str, seed: u64, n: u64, body: &Value) -> std::io::Result<PathBuf> {
    let dir = verif_root().join("replays");
    std::fs::create_dir_all(&dir)?;
    let path = dir.join(format!("{property}-{seed}-{n}.json"));
    std::fs::write(&path, serde_json::to_string_pretty(body).unwrap() + "\n")?;
    Ok(path)
}

pub fn read_json(path: &Path) -> Result<Value, String> {
    let text = std::fs::read_to_string(path).map_err(|e| format!("{}: {e}", path.display()))?;
    serde_json::from_str(&text).map_err(|e| format!("{}: {e}", path.display()))
}

/// Generic ddmin over a list: returns a 1-minimal sub-list for which `fails`
/// still holds.  `fails` must be deterministic.
pub fn ddmin<T: Clone>(items: &[T], mut fails: impl FnMut(&[T]) -> bool) -> Vec<T> {
    let mut cur: Vec<T> = items.to_vec();
    let mut n = 2usize;
    while cur.len() >= 2 {
        let chunk = cur.len().div_ceil(n);
        let mut reduced = false;
        // try removing each chunk (complement testing)
        let mut start = 0;
        while start < cur.len() {
            let end = (start + chunk).min(cur.len());
            let mut cand = Vec::with_capacity(cur.len() - (end - start));
            cand.extend_from_slice(&cur[..start]);
            cand.extend_from_slice(&cur[end..]);
            if !cand.is_empty() && fails(&cand) {
                cur = cand;
                n = n.saturating_sub(1).max(2);
                reduced = true;
                break;
            }
            start = end;
        }
        if !reduced {
            if n >= cur.len() {
                break;
            }
            n = (n * 2).min(cur.len());
        }
    }
    // final single-element pass
    let mut i = 0;
    while cur.len() > 1 && i < cur.len() {
        let mut cand = cur.clone();
        cand.remove(i);
        if fails(&cand) {
            cur = cand;
        } else {
            i += 1;
        }
    }
    cur
}

#[cfg(test)]
mod tests {
    use super::*;

    #[test]
    fn rng_is_deterministic() {
        let mut a = Rng::for_run(1, 2, 3);
        let mut b = Rng::for_run(1, 2, 3);
        for _ in 0..100 {
            assert_eq!(a.next_u64(), b.next_u64());
        }
        let mut c = Rng::for_run(1, 2, 4);
        assert_ne!(a.next_u64(), c.next_u64());
    }

    #[test]
    fn ddmin_minimises() {
        let items: Vec<u32> = (0..50).collect();
        let r = ddmin(&items, |s| s.contains(&7) && s.contains(&33));
        assert_eq!(r, vec![7, 33]);
    }
}
