#!/bin/bash
# usage: sensitivity/mutate.sh <check id> <file under /repo> <sed expression> [label]
# Applies one property-breaking (or neutral) mutation to /repo's working tree, runs the
# quick check, restores the tree.  Prints the verdict line(s).  Not a registered command.
set -u
id="$1"; file="$2"; expr="$3"; label="${4:-$3}"
cd /repo || exit 2
if ! git diff --quiet; then echo "repo working tree not clean"; exit 2; fi
sed -i "$expr" "$file"
if git diff --quiet; then echo "MUTATION DID NOT APPLY: $label"; exit 2; fi
cd /verif
out=$(./check "$id" --tier quick 2>&1); code=$?
git -C /repo checkout -- .
echo "== $id :: $label :: exit $code"
echo "$out" | grep -E "^(VIOLATION|violation:|HARNESS|OK|KNOWN)" | cut -c1-260 | head -4
