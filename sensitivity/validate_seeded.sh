#!/bin/bash
# validate_seeded.sh <worktree> <demo test filter> <package>
# confirms: patch applies on clean HEAD; suite passes with patch; demo fails with patch, passes without
wt="$1"; filter="$2"; pkg="$3"
cd "$wt" || exit 2
export CARGO_NET_OFFLINE=true
git checkout -q -- . ; git clean -fdq -e patch.diff -e demo.diff -e target -e '*.md' >/dev/null 2>&1
git apply --check patch.diff && git apply --check demo.diff || { echo "APPLY-CHECK FAILED"; exit 1; }
git apply patch.diff
echo "== suite with patch"
cargo nextest run --workspace --no-fail-fast --offline --test-threads 8 2>&1 | grep -E 'Summary|FAIL|passed|failed' | tail -5
git apply demo.diff || { echo "demo does not apply on top of patch"; exit 1; }
echo "== demo with patch (expect FAIL)"
cargo test -p "$pkg" --offline "$filter" 2>&1 | grep -E 'test result|panicked|FAILED|failed' | head -8
git apply -R patch.diff
echo "== demo without patch (expect ok)"
cargo test -p "$pkg" --offline "$filter" 2>&1 | grep -E 'test result|panicked|FAILED|failed' | head -8
