#!/bin/bash
# Applies every change under /verif/seeded/ to /repo's working tree in turn, runs the quick check
# of the property it targets, reverts, and prints one line per change.  Bug seeds must be DETECTED
# (exit 1 + VIOLATION), neutral refactorings must be SILENT (exit 0).  Not a registered command.
# usage: sensitivity/run_seeded.sh [id ...]      (env VERIF_SEED honoured)
set -u
cd /verif || exit 2
ids=("$@"); if [ ${#ids[@]} -eq 0 ]; then ids=($(ls seeded)); fi
if ! git -C /repo diff --quiet; then echo "repo working tree not clean"; exit 2; fi
for id in "${ids[@]}"; do
  meta="seeded/$id/meta.json"
  props=$(python3 -c "import json,sys; m=json.load(open('$meta')); print(' '.join(m.get('properties',[m.get('property')])))")
  kind=$(python3 -c "import json; m=json.load(open('$meta')); print('neutral' if 'neutral' in m.get('kind','') else 'bug')")
  if ! git -C /repo apply --check "/verif/seeded/$id/patch.diff" 2>/dev/null; then echo "$id: PATCH DOES NOT APPLY"; continue; fi
  git -C /repo apply "/verif/seeded/$id/patch.diff"
  for p in $props; do
    out=$(./check "$p" --tier quick 2>&1); code=$?
    nv=$(echo "$out" | grep -c "^VIOLATION")
    cls=$(echo "$out" | grep "^violation:" | sed 's/^violation: //' | cut -c1-70 | head -2 | tr '\n' ';')
    verdict="?"
    if [ "$kind" = bug ]; then [ $code -eq 1 ] && verdict="DETECTED" || verdict="MISSED(exit $code)"; else [ $code -eq 0 ] && verdict="SILENT(ok)" || verdict="FALSE-ALARM(exit $code)"; fi
    echo "$id [$kind] $p seed=${VERIF_SEED:-default}: $verdict  violations=$nv  $cls"
  done
  git -C /repo checkout -- .
done
