//! Workload generation for LS-sim (DESIGN §3.4): corpus, edit histories (C29),
//! request/configuration histories (C30).  Everything is drawn from the run's PRNG.

use serde_json::{json, Value};
use simcore::Rng;
use std::collections::BTreeMap;

#[derive(Clone)]
pub struct Text {
    pub name: String,
    pub body: String,
    pub template: bool,
}

#[derive(Clone, Default)]
pub struct ClassInfo {
    /// "ok", "sync_error", "bg_error", "bg_warn", "crash"
    pub class: String,
    /// diagnostics last published by a reference run of instance 0
    pub diagnostics: Value,
}

pub struct Corpus {
    pub texts: Vec<Text>,
    /// (text index, max_k) -> class
    pub classes: BTreeMap<(usize, u64), ClassInfo>,
}

pub fn load_corpus(max_plain_bytes: usize) -> Corpus {
    let root = simcore::verif_root().join("corpus");
    let mut texts = vec![];
    let mut names: Vec<_> = std::fs::read_dir(root.join("ls").join("templates"))
        .map(|rd| rd.flatten().map(|e| e.path()).collect())
        .unwrap_or_default();
    names.sort();
    for p in names {
        if let Ok(b) = std::fs::read(&p) {
            texts.push(Text {
                name: format!("tpl:{}", p.file_stem().unwrap().to_string_lossy()),
                body: String::from_utf8_lossy(&b).to_string(),
                template: true,
            });
        }
    }
    // repository grammars (small ones only: analysis in the dev profile must stay in the ms range)
    let skip: Vec<String> = std::fs::read_to_string(root.join("ls").join("skip.txt"))
        .unwrap_or_default()
        .lines()
        .map(|l| l.trim().to_string())
        .filter(|l| !l.is_empty() && !l.starts_with('#'))
        .collect();
    let mut plain: Vec<_> = std::fs::read_dir(root.join("par"))
        .map(|rd| rd.flatten().map(|e| e.path()).collect())
        .unwrap_or_default();
    plain.sort();
    for p in plain {
        let name = p.file_name().unwrap().to_string_lossy().to_string();
        if skip.contains(&name) {
            continue;
        }
        if let Ok(b) = std::fs::read(&p) {
            if b.len() <= max_plain_bytes {
                texts.push(Text {
                    name: format!("par:{name}"),
                    body: String::from_utf8_lossy(&b).to_string(),
                    template: false,
                });
            }
        }
    }
    Corpus {
        texts,
        classes: BTreeMap::new(),
    }
}

/// Instance `n` of a text: templates get the suffix `n` on every identifier marked with
/// `@` (`@@` is a literal `@` after a marked identifier); repository grammars get `n % 4`
/// comment lines in front (shifts every range, keeps the class).
pub fn instantiate(t: &Text, n: u64) -> String {
    if t.template {
        let sfx = if n == 0 { String::new() } else { n.to_string() };
        t.body
            .replace("@@", "\u{0}")
            .replace('@', &sfx)
            .replace('\u{0}', &format!("{sfx}@"))
    } else {
        let mut s = String::new();
        for i in 0..(n % 4) {
            s.push_str(&format!("// e{n}.{i}\n"));
        }
        s.push_str(&t.body);
        if n > 0 {
            s.push_str(&format!("\n// edit {n}\n"));
        }
        s
    }
}

pub fn uri(doc: usize) -> String {
    format!("file:///sim/doc{doc}.par")
}

pub fn init_params(rng: &mut Rng, with_options: bool, dyn_reg: bool) -> Value {
    let mut init = json!({"capabilities": {}});
    if dyn_reg {
        init["capabilities"] = json!({"workspace": {"didChangeConfiguration": {"dynamicRegistration": true}}});
    }
    if with_options {
        init["initializationOptions"] = settings(rng, false);
    }
    init
}

/// Well-typed configuration properties only (ill-typed ones make main_loop return Err by design).
pub fn settings(rng: &mut Rng, with_k: bool) -> Value {
    let mut m = serde_json::Map::new();
    if rng.chance(1, 2) {
        m.insert("formatting.empty_line_after_prod".into(), json!(rng.chance(1, 2)));
    }
    if rng.chance(1, 2) {
        m.insert("formatting.prod_semicolon_on_nl".into(), json!(rng.chance(1, 2)));
    }
    if rng.chance(1, 2) {
        m.insert(
            "formatting.max_line_length".into(),
            json!(*rng.pick(&[0u64, 1, 2, 10, 40, 100, 1_000_000])),
        );
    }
    if with_k && rng.chance(1, 3) {
        m.insert("max_k".into(), json!(rng.range(1, 3)));
    }
    Value::Object(m)
}

// ---------------------------------------------------------------------------
// C29: edit histories
// ---------------------------------------------------------------------------

pub struct C29Config {
    pub max_docs: usize,
    pub max_edits: usize,
    pub faulty: bool,
    pub reopen: bool,
    pub config_changes: bool,
    pub derived: bool,
}

fn pick_text_of_class(rng: &mut Rng, corpus: &Corpus, k: u64, want: &str, templates_only: bool) -> usize {
    let cands: Vec<usize> = corpus
        .texts
        .iter()
        .enumerate()
        .filter(|(i, t)| {
            (!templates_only || t.template)
                && corpus.classes.get(&(*i, k)).map(|c| c.class.as_str()) == Some(want)
        })
        .map(|(i, _)| i)
        .collect();
    if cands.is_empty() {
        // any text whose reference run does not crash the server
        let all: Vec<usize> = (0..corpus.texts.len())
            .filter(|i| corpus.classes.get(&(*i, k)).map(|c| c.class.as_str()) != Some("crash"))
            .collect();
        return *rng.pick(&all);
    }
    *rng.pick(&cands)
}

/// Returns (spec without run id, per-op text names for the evidence samples)
pub fn gen_c29(rng: &mut Rng, corpus: &Corpus, cfg: &C29Config) -> Value {
    let max_k = *rng.pick(&[1u64, 2, 3, 3]);
    let n_docs = 1 + rng.usize_below(cfg.max_docs);
    let total_edits = 1 + rng.usize_below(cfg.max_edits);
    let templates_only = rng.chance(2, 3);
    // class sequence bias: alternate background-error texts and quickly accepted ones
    let classes = ["bg_error", "ok", "sync_error", "bg_warn"];
    let weights_after = |prev: Option<&str>| -> [u64; 4] {
        match prev {
            Some("bg_error") => [3, 6, 3, 1],
            Some("ok") => [6, 2, 2, 2],
            Some("sync_error") => [5, 3, 2, 1],
            Some("bg_warn") => [3, 4, 2, 2],
            _ => [5, 3, 2, 2],
        }
    };
    let mut ops = vec![];
    let mut opened = vec![false; n_docs];
    let mut version = vec![0i64; n_docs];
    let mut prev_class: Vec<Option<String>> = vec![None; n_docs];
    let mut cur_text: Vec<Option<String>> = vec![None; n_docs];
    let mut edit_no = 0u64;
    for _ in 0..total_edits {
        let d = rng.usize_below(n_docs);
        // close and reopen in the middle of a history (an editor tab closed and opened again);
        // half of the time the client restarts its version numbering
        if cfg.reopen && opened[d] && rng.chance(1, 8) {
            ops.push(json!({"t": "close", "uri": uri(d)}));
            opened[d] = false;
            prev_class[d] = None;
            cur_text[d] = None;
            if rng.chance(1, 2) {
                version[d] = 0;
            }
        }
        // the lookahead limit is server state too
        if cfg.config_changes && rng.chance(1, 10) {
            ops.push(json!({"t": "config", "settings": {"max_k": rng.range(1, 3)}}));
        }
        let w = weights_after(prev_class[d].as_deref());
        let class = classes[rng.weighted(&w)];
        let ti = pick_text_of_class(rng, corpus, max_k, class, templates_only);
        prev_class[d] = Some(class.to_string());
        edit_no += 1;
        let inst = if rng.chance(1, 10) { 0 } else { edit_no };
        let cur_before: Option<String> = cur_text[d].clone();
        let mut text = instantiate(&corpus.texts[ti], inst);
        // a quarter of the changes are small editor-like edits of the document's current text
        // (comment a line out, type a character, whitespace-only edits ...)
        if let Some(prev) = &cur_text[d] {
            if cfg.derived && rng.chance(1, 3) {
                text = derive_edit(rng, prev);
            }
        }
        cur_text[d] = Some(text.clone());
        version[d] += if rng.chance(1, 6) { rng.range(2, 5) as i64 } else { 1 };
        if !opened[d] {
            opened[d] = true;
            ops.push(json!({"t": "open", "uri": uri(d), "version": version[d], "text": text, "src": corpus.texts[ti].name, "class": class}));
        } else if rng.chance(1, 30) && cur_before.is_some() {
            // a didChange without any content change: the text stays what it was (the op's `text`
            // field is what the oracle takes as the document text after this edit)
            let same = cur_before.clone().unwrap();
            cur_text[d] = Some(same.clone());
            ops.push(json!({"t": "change", "uri": uri(d), "version": version[d], "text": same, "changes": [], "src": "unchanged", "class": "unchanged"}));
        } else if rng.chance(1, 8) {
            // several content changes in one notification: with full-text sync the last one wins
            let other_class = *rng.pick(&classes);
            let tj = pick_text_of_class(rng, corpus, max_k, other_class, templates_only);
            let other = instantiate(&corpus.texts[tj], edit_no + 1000);
            ops.push(json!({"t": "change", "uri": uri(d), "version": version[d], "text": text, "changes": [other, text], "src": corpus.texts[ti].name, "class": class}));
        } else {
            ops.push(json!({"t": "change", "uri": uri(d), "version": version[d], "text": text, "src": corpus.texts[ti].name, "class": class}));
        }
    }
    // optionally close one document at the end (no traffic for it afterwards)
    if n_docs > 1 && rng.chance(1, 6) {
        let d = rng.usize_below(n_docs);
        if opened[d] {
            ops.push(json!({"t": "close", "uri": uri(d)}));
        }
    }
    let strategy = *rng.pick(&["uniform", "sticky", "pct", "timed", "timed", "uniform"]);
    let crash = if cfg.faulty { *rng.pick(&[0u64, 0, 60, 150]) } else { 0 };
    let sched = json!({
        "mode": "seed",
        "seed": rng.next_u64() >> 1,
        "strategy": strategy,
        "bg_crash_permille": crash,
        "pct_depth": rng.range(1, 3),
        "mean_gap_us": *rng.pick(&[1_000u64, 20_000, 150_000, 2_000_000]),
    });
    json!({
        "hash_seed": rng.next_u64() >> 1,
        "max_k": max_k,
        "init": {"capabilities": {}},
        "ops": ops,
        "sched": sched,
    })
}

// ---------------------------------------------------------------------------
// C30: requests
// ---------------------------------------------------------------------------

fn line_starts(text: &str) -> Vec<&str> {
    // split on \n only (a trailing \r stays part of the line, as an editor would count columns)
    text.split('\n').collect()
}

/// A position together with the name of its class (for the coverage cells).
pub fn gen_position(rng: &mut Rng, text: &str) -> (Value, &'static str) {
    let lines = line_starts(text);
    let n = lines.len() as u64;
    let kind = rng.below(16);
    let (line, ch, name): (u64, u64, &'static str) = match kind {
        0..=5 => {
            // token based: start / middle / end of an identifier, string, or punctuation
            let li = rng.below(n);
            let l: Vec<char> = lines[li as usize].chars().collect();
            let mut toks: Vec<(usize, usize)> = vec![];
            let mut i = 0;
            while i < l.len() {
                if l[i].is_alphabetic() || l[i] == '_' || l[i] == '%' {
                    let s = i;
                    i += 1;
                    while i < l.len() && (l[i].is_alphanumeric() || l[i] == '_') {
                        i += 1;
                    }
                    toks.push((s, i));
                } else if l[i] == '"' || l[i] == '\'' || l[i] == '/' {
                    let q = l[i];
                    let s = i;
                    i += 1;
                    while i < l.len() && l[i] != q {
                        i += 1;
                    }
                    i = (i + 1).min(l.len());
                    toks.push((s, i));
                } else if !l[i].is_whitespace() {
                    toks.push((i, i + 1));
                    i += 1;
                } else {
                    i += 1;
                }
            }
            if toks.is_empty() {
                (li, 0, "empty_line")
            } else {
                let (s, e) = toks[rng.usize_below(toks.len())];
                match rng.below(3) {
                    0 => (li, s as u64, "tok_start"),
                    1 => (li, ((s + e) / 2) as u64, "tok_mid"),
                    _ => (li, e as u64, "tok_end"),
                }
            }
        }
        6 => {
            let li = rng.below(n);
            (li, lines[li as usize].chars().count() as u64, "line_end")
        }
        7 => {
            let li = rng.below(n);
            (li, lines[li as usize].chars().count() as u64 + 1, "past_line_end")
        }
        8 => {
            let li = rng.below(n);
            (li, lines[li as usize].chars().count() as u64 + rng.range(2, 500), "far_past_line_end")
        }
        9 => {
            let li = n - 1;
            let len = lines[li as usize].chars().count() as u64;
            (li, rng.below(len + 2), "last_line")
        }
        10 => (n, rng.below(4), "past_last_line"),
        11 => (n + rng.range(1, 1000), rng.below(100), "far_past_last_line"),
        12 => (*rng.pick(&[0u64, n - 1, n, u32::MAX as u64]), u32::MAX as u64, "u32max_char"),
        13 => (u32::MAX as u64, *rng.pick(&[0u64, 1, u32::MAX as u64]), "u32max_line"),
        14 => {
            // byte offset used as character (differs for multi-byte lines)
            let li = rng.below(n);
            (li, lines[li as usize].len() as u64, "byte_len_as_char")
        }
        _ => (0, 0, "zero"),
    };
    (json!({"line": line.min(u32::MAX as u64), "character": ch.min(u32::MAX as u64)}), name)
}

fn identifiers(text: &str) -> Vec<String> {
    let mut v = vec![];
    let mut cur = String::new();
    for c in text.chars() {
        if c.is_alphanumeric() || c == '_' {
            cur.push(c);
        } else {
            if cur.len() > 0 && !cur.chars().next().unwrap().is_numeric() {
                v.push(std::mem::take(&mut cur));
            }
            cur.clear();
        }
    }
    v.sort();
    v.dedup();
    v
}

pub const REQUEST_KINDS: [&str; 7] = [
    "textDocument/hover",
    "textDocument/definition",
    "textDocument/documentSymbol",
    "textDocument/prepareRename",
    "textDocument/rename",
    "textDocument/formatting",
    "textDocument/codeAction",
];

/// Builds one request op; returns (op, position class name).
pub fn gen_request(
    rng: &mut Rng,
    id: i64,
    doc_uri: &str,
    text: &str,
    known_diags: &Value,
) -> (Value, &'static str) {
    let method = REQUEST_KINDS[rng.weighted(&[4, 3, 2, 3, 4, 4, 4])];
    let td = json!({"uri": doc_uri});
    let (mut pos, mut pclass) = gen_position(rng, text);
    // symbol-based requests do real work only on identifiers: half of them aim at one
    if matches!(method, "textDocument/hover" | "textDocument/definition" | "textDocument/prepareRename" | "textDocument/rename") && rng.chance(1, 2) {
        let r = gen_token_range(rng, text, 0);
        let on_start = rng.chance(1, 2);
        pos = if on_start { r["start"].clone() } else {
            let (s, e) = (r["start"]["character"].as_u64().unwrap_or(0), r["end"]["character"].as_u64().unwrap_or(0));
            json!({"line": r["start"]["line"], "character": (s + e) / 2})
        };
        pclass = if on_start { "ident_start" } else { "ident_mid" };
    }
    let params = match method {
        "textDocument/hover" | "textDocument/definition" | "textDocument/prepareRename" => {
            json!({"textDocument": td, "position": pos})
        }
        "textDocument/documentSymbol" => {
            pclass = "n/a";
            json!({"textDocument": td})
        }
        "textDocument/rename" => {
            let ids = identifiers(text);
            let new_name = match rng.below(7) {
                0 => "Renamed1".to_string(),
                1 if !ids.is_empty() => rng.pick(&ids).clone(),
                2 => "%start".to_string(),
                3 => String::new(),
                4 => "has space".to_string(),
                5 => "\u{00fc}ml\u{00e4}ut\u{1F600}".to_string(),
                _ => format!("N{}", rng.below(1000)),
            };
            json!({"textDocument": td, "position": pos, "newName": new_name})
        }
        "textDocument/formatting" => {
            pclass = "n/a";
            let mut options = json!({
                "tabSize": *rng.pick(&[0u64, 1, 2, 4, 8, 1000]),
                "insertSpaces": rng.chance(1, 2),
            });
            if rng.chance(1, 3) {
                options["trimTrailingWhitespace"] = json!(rng.chance(1, 2));
                options["insertFinalNewline"] = json!(rng.chance(1, 2));
            }
            if rng.chance(1, 3) {
                // request-level properties (the server overwrites the ones it knows)
                options["formatting.max_line_length"] = json!(*rng.pick(&[0i64, 1, 20, 100]));
                options["formatting.empty_line_after_prod"] = json!(rng.chance(1, 2));
                options["unknown.property"] = json!("x");
            }
            json!({"textDocument": td, "options": options})
        }
        _ => {
            // codeAction
            let (pos2, _) = gen_position(rng, text);
            let range = if rng.chance(1, 5) {
                json!({"start": pos2, "end": pos}) // possibly reversed
            } else {
                json!({"start": pos, "end": pos2})
            };
            let mut diags: Vec<Value> = vec![];
            if rng.chance(1, 2) {
                if let Some(a) = known_diags.as_array() {
                    diags.extend(a.iter().cloned());
                }
            }
            let n_syn = rng.below(3);
            for _ in 0..n_syn {
                let (a, _) = gen_position(rng, text);
                let (b, _) = gen_position(rng, text);
                let code = *rng.pick(&[
                    "parol::parser::invalid_token_in_transition",
                    "parol::parser::token_not_in_scanner",
                    "parol::parser::token_not_in_scanner",
                    "some::other::code",
                ]);
                let msg = match rng.below(4) {
                    0 => "Token is not valid in scanner 'Esc'".to_string(),
                    1 => "scanner 'INITIAL' x".to_string(),
                    2 => String::new(),
                    _ => "scanner '' \u{1F600}".to_string(),
                };
                let range = if rng.chance(1, 2) { gen_token_range(rng, text, 2) } else { json!({"start": a, "end": b}) };
                let mut d = json!({"range": range, "message": msg});
                match rng.below(4) {
                    0 => {}
                    1 => d["code"] = json!(17),
                    _ => d["code"] = json!(code),
                }
                diags.push(d);
            }
            json!({"textDocument": td, "range": range, "context": {"diagnostics": diags}})
        }
    };
    (json!({"t": "req", "id": id, "method": method, "params": params, "pclass": pclass}), pclass)
}

/// Seeded corruption of a text: the property quantifies over *every* document text, valid or
/// not.  All cuts are on char boundaries (the text must stay valid UTF-8 to travel in JSON).
pub fn mutate_text(rng: &mut Rng, text: &str) -> String {
    let snippets = [
        "\"", "'", "/", "%", "<", ">", "{", "}", "(", ")", "[", "]", ";", ":", "|", "^", "@", "=", "::",
        "\u{e9}", "\u{1F600}", "\u{2603}", "\r", "\n", "\r\n", "\t", " ", "%scanner X {", "%%", "// c\n", "/*", "*/",
        "\u{feff}", "%on A %enter B", "%start", "<INITIAL>", "\\", "?=", "?!", "%nt_type A = B::C", "\u{0}",
    ];
    let mut chars: Vec<char> = text.chars().collect();
    let n_mut = 1 + rng.below(3);
    for _ in 0..n_mut {
        let len = chars.len();
        match rng.below(7) {
            0 if len > 0 => {
                // delete a span
                let a = rng.usize_below(len);
                let b = (a + 1 + rng.usize_below(12)).min(len);
                chars.drain(a..b);
            }
            1 | 2 => {
                let at = rng.usize_below(len + 1);
                let sn: Vec<char> = rng.pick(&snippets).chars().collect();
                for (i, c) in sn.into_iter().enumerate() {
                    chars.insert(at + i, c);
                }
            }
            3 if len > 0 => {
                // duplicate a line
                let s: String = chars.iter().collect();
                let lines: Vec<&str> = s.split_inclusive('\n').collect();
                let i = rng.usize_below(lines.len());
                let mut out = String::new();
                for (j, l) in lines.iter().enumerate() {
                    out.push_str(l);
                    if j == i {
                        out.push_str(l);
                    }
                }
                chars = out.chars().collect();
            }
            4 if len > 0 => {
                chars.truncate(rng.usize_below(len));
            }
            5 => {
                // change the line-ending convention
                let s: String = chars.iter().collect();
                let to = *rng.pick(&["\r\n", "\r", "\n\r"]);
                chars = s.replace("\r\n", "\n").replace('\n', to).chars().collect();
            }
            _ if len > 1 => {
                // swap two adjacent chars
                let a = rng.usize_below(len - 1);
                chars.swap(a, a + 1);
            }
            _ => {}
        }
    }
    chars.into_iter().collect()
}

/// Re-encodes a text without changing its meaning: CRLF everywhere, line ends mixed line by
/// line (LF / CRLF, rarely a lone CR), multi-byte characters in comments in front of, between and
/// behind the lines.  The property names "multi-byte characters and CRLF" explicitly.
pub fn reencode(rng: &mut Rng, text: &str) -> String {
    let unified = text.replace("\r\n", "\n");
    let lines: Vec<&str> = unified.split('\n').collect();
    let style = rng.below(4); // 0 CRLF, 1 mixed, 2 mixed + multi-byte comments, 3 multi-byte comments only
    let mut out = String::new();
    for (i, l) in lines.iter().enumerate() {
        if style >= 2 && rng.chance(1, 4) {
            let c = *rng.pick(&["// \u{fc}\u{e4}\u{f6}", "/* \u{1F600} */", "// \u{65e5}\u{672c}", "// \u{e9}"]);
            out.push_str(c);
            out.push_str(if style == 2 && rng.chance(1, 2) { "\r\n" } else { "\n" });
        }
        out.push_str(l);
        if i + 1 < lines.len() {
            let eol = match style {
                0 => "\r\n",
                1 | 2 => match rng.below(8) {
                    0..=3 => "\n",
                    4..=6 => "\r\n",
                    _ => "\r",
                },
                _ => "\n",
            };
            out.push_str(eol);
        }
    }
    out
}

/// A small, editor-like edit of the current text (the next version of a document is usually
/// the previous one with a line commented out, removed, duplicated, a few characters typed...).
pub fn derive_edit(rng: &mut Rng, prev: &str) -> String {
    let mut lines: Vec<String> = prev.split('\n').map(|l| l.to_string()).collect();
    if lines.is_empty() {
        return "// x\n".to_string();
    }
    // a third of the derived edits are pure whitespace edits (format on save, trimming, blank
    // lines added or removed): the text means the same, every position may move
    let ws_only = rng.chance(1, 3);
    let n_edits = 1 + rng.below(2);
    for _ in 0..n_edits {
        // a third of the edits touch a declaration line (%start, %scanner, %skip, %on ...)
        let directive: Vec<usize> = (0..lines.len()).filter(|i| lines[*i].contains('%')).collect();
        let i = if !directive.is_empty() && rng.chance(1, 3) { *rng.pick(&directive) } else { rng.usize_below(lines.len()) };
        let kind = if ws_only { 9 + rng.below(3) } else { rng.below(12) };
        match kind {
            9 => {
                // whitespace-only edit at the very beginning of the document
                let ws = *rng.pick(&["", "", " ", "\t"]);
                let n = rng.below(3) as usize + if ws.is_empty() { 1 } else { 0 };
                for _ in 0..n {
                    lines.insert(0, ws.to_string());
                }
                if n == 0 {
                    lines[0] = format!("{ws}{}", lines[0]);
                }
            }
            10 => {
                // whitespace-only edit at the end (final newline added or removed, trailing blanks)
                match rng.below(3) {
                    0 => lines.push(String::new()),
                    1 => {
                        if lines.len() > 1 && lines.last().map(|l| l.trim().is_empty()).unwrap_or(false) {
                            lines.pop();
                        }
                    }
                    _ => {
                        if let Some(l) = lines.last_mut() {
                            l.push_str("  ");
                        }
                    }
                }
            }
            11 => {
                // re-indent a line
                let t = lines[i].trim_start().to_string();
                lines[i] = format!("{}{t}", *rng.pick(&["", "  ", "    ", "\t"]));
            }
            0 | 1 => {
                // comment the line out (keep the indentation)
                let indent: String = lines[i].chars().take_while(|c| c.is_whitespace()).collect();
                let rest: String = lines[i].chars().skip(indent.chars().count()).collect();
                let marker = *rng.pick(&["// ", "//", "# "]);
                lines[i] = format!("{indent}{marker}{rest}");
            }
            2 => {
                // uncomment
                if let Some(p) = lines[i].find("//") {
                    lines[i].replace_range(p..p + 2, "");
                }
            }
            3 => {
                lines.remove(i);
                if lines.is_empty() {
                    lines.push(String::new());
                }
            }
            4 => {
                let l = lines[i].clone();
                lines.insert(i, l);
            }
            5 => {
                let add = *rng.pick(&[" // note", " /* c */", ";", " |", " \"x\"", " X", ":", " %skip Y", "\u{e4}"]);
                lines[i].push_str(add);
            }
            6 => {
                // type a character somewhere in the line
                let chars: Vec<char> = lines[i].chars().collect();
                let at = rng.usize_below(chars.len() + 1);
                let c = *rng.pick(&['a', 'Z', '_', ' ', ';', '"', '%', '\u{e9}']);
                let mut v = chars;
                v.insert(at, c);
                lines[i] = v.into_iter().collect();
            }
            7 => {
                // delete a character
                let mut v: Vec<char> = lines[i].chars().collect();
                if !v.is_empty() {
                    let at = rng.usize_below(v.len());
                    v.remove(at);
                }
                lines[i] = v.into_iter().collect();
            }
            _ => {
                // join with the next line
                if i + 1 < lines.len() {
                    let next = lines.remove(i + 1);
                    lines[i].push_str(&next);
                }
            }
        }
    }
    lines.join("\n")
}

/// A range that covers exactly one token of the text (preferring lines with directives).
pub fn gen_token_range(rng: &mut Rng, text: &str, directive_bias_thirds: u64) -> Value {
    let lines: Vec<&str> = text.split('\n').collect();
    let directive_lines: Vec<usize> = (0..lines.len()).filter(|i| lines[*i].contains('%')).collect();
    let li = if !directive_lines.is_empty() && rng.chance(directive_bias_thirds, 3) {
        *rng.pick(&directive_lines)
    } else {
        rng.usize_below(lines.len())
    };
    let l: Vec<char> = lines[li].chars().collect();
    let mut toks: Vec<(usize, usize)> = vec![];
    let mut i = 0;
    while i < l.len() {
        if l[i].is_alphanumeric() || l[i] == '_' {
            let s = i;
            while i < l.len() && (l[i].is_alphanumeric() || l[i] == '_') {
                i += 1;
            }
            toks.push((s, i));
        } else {
            i += 1;
        }
    }
    if toks.is_empty() {
        return json!({"start": {"line": li, "character": 0}, "end": {"line": li, "character": l.len()}});
    }
    let (s, e) = toks[rng.usize_below(toks.len())];
    json!({"start": {"line": li, "character": s}, "end": {"line": li, "character": e}})
}

pub struct C30Config {
    pub max_docs: usize,
    pub max_edits: usize,
    pub max_requests: usize,
    pub mutate: bool,
}

pub fn gen_c30(rng: &mut Rng, corpus: &Corpus, cfg: &C30Config) -> Value {
    let max_k = *rng.pick(&[1u64, 2, 3]);
    let n_docs = 1 + rng.usize_below(cfg.max_docs);
    let n_edits = 1 + rng.usize_below(cfg.max_edits);
    let n_reqs = 1 + rng.usize_below(cfg.max_requests);
    let dyn_reg = rng.chance(1, 5);
    let with_options = rng.chance(1, 2);
    let init = init_params(rng, with_options, dyn_reg);
    let mut ops = vec![];
    if dyn_reg && rng.chance(1, 2) {
        // the client's answer to the server's registerCapability request
        ops.push(json!({"t": "resp", "id": 1000}));
    }
    let mut text_of: Vec<Option<(String, usize, bool)>> = vec![None; n_docs];
    // corpus texts every document went through (their diagnostics are what an editor may still hold)
    let mut history: Vec<Vec<usize>> = vec![vec![]; n_docs];
    let mut version = vec![0i64; n_docs];
    let mut edits_left = n_edits;
    let mut reqs_left = n_reqs;
    let mut id = 1i64;
    let usable: Vec<usize> = (0..corpus.texts.len())
        .filter(|i| corpus.classes.get(&(*i, max_k)).map(|c| c.class.as_str()) != Some("crash"))
        .collect();
    while edits_left + reqs_left > 0 {
        let any_open = text_of.iter().any(|t| t.is_some());
        let do_edit = !any_open || (edits_left > 0 && rng.below((edits_left + reqs_left) as u64) < edits_left as u64);
        if do_edit && edits_left > 0 {
            edits_left -= 1;
            let d = rng.usize_below(n_docs);
            // templates are drawn more often than repository grammars
            let ti = if rng.chance(3, 5) {
                let t: Vec<usize> = usable.iter().copied().filter(|i| corpus.texts[*i].template).collect();
                *rng.pick(&t)
            } else {
                *rng.pick(&usable)
            };
            let mut text = instantiate(&corpus.texts[ti], if rng.chance(1, 2) { 0 } else { rng.below(50) });
            let mut mutated = cfg.mutate && rng.chance(1, 3);
            let mut ti = ti;
            if mutated {
                text = mutate_text(rng, &text);
            } else if rng.chance(1, 3) {
                // same grammar, other encoding of line ends / extra multi-byte comments
                text = reencode(rng, &text);
            }
            // half of the changes are small edits of the document's current text
            if let Some((prev, prev_ti, _)) = &text_of[d] {
                if cfg.mutate && rng.chance(1, 2) {
                    text = derive_edit(rng, prev);
                    ti = *prev_ti;
                    mutated = true;
                }
            }
            history[d].push(ti);
            version[d] += 1;
            let kind = if text_of[d].is_none() { "open" } else { "change" };
            ops.push(json!({"t": kind, "uri": uri(d), "version": version[d], "text": text, "src": corpus.texts[ti].name, "mutated": mutated}));
            text_of[d] = Some((text, ti, mutated));
        } else if reqs_left > 0 && any_open {
            reqs_left -= 1;
            if rng.chance(1, 7) {
                ops.push(json!({"t": "config", "settings": settings(rng, true)}));
                continue;
            }
            let open_docs: Vec<usize> = (0..n_docs).filter(|d| text_of[*d].is_some()).collect();
            let d = *rng.pick(&open_docs);
            let (text, ti, mutated) = text_of[d].clone().unwrap();
            // diagnostics of the current or of an earlier text of this document (stale ones)
            let dti = if !history[d].is_empty() && rng.chance(1, 2) { *rng.pick(&history[d]) } else { ti };
            let known = corpus
                .classes
                .get(&(dti, max_k))
                .map(|c| c.diagnostics.clone())
                .unwrap_or(Value::Null);
            let (mut op, _) = gen_request(rng, id, &uri(d), &text, &known);
            op["src"] = json!(corpus.texts[ti].name);
            op["tclass"] = if mutated {
                json!("mutated")
            } else {
                json!(corpus.classes.get(&(ti, max_k)).map(|c| c.class.clone()).unwrap_or_default())
            };
            id += 1;
            ops.push(op);
        } else {
            break;
        }
    }
    if rng.chance(1, 8) {
        let open_docs: Vec<usize> = (0..n_docs).filter(|d| text_of[*d].is_some()).collect();
        if !open_docs.is_empty() {
            let d = *rng.pick(&open_docs);
            ops.push(json!({"t": "close", "uri": uri(d)}));
        }
    }
    let strategy = *rng.pick(&["uniform", "sticky", "pct", "timed", "canonical"]);
    let sched = if strategy == "canonical" {
        json!({"mode": "canonical"})
    } else {
        json!({
            "mode": "seed",
            "seed": rng.next_u64() >> 1,
            "strategy": strategy,
            "bg_crash_permille": *rng.pick(&[0u64, 0, 0, 100]),
            "pct_depth": rng.range(1, 3),
            "mean_gap_us": *rng.pick(&[1_000u64, 150_000]),
        })
    };
    json!({
        "hash_seed": rng.next_u64() >> 1,
        "max_k": max_k,
        "init": init,
        "ops": ops,
        "sched": sched,
    })
}
