//! ls-check: orchestrator and oracles of LS-sim (C29, C30).  See /verif/DESIGN.md §3.
//!
//! The executor (the real `parol-ls` built with `--cfg parol_verif`, driver in
//! /verif/ls-sim/driver.rs) knows nothing about what is right; this program generates
//! the run specs from the seed, evaluates the oracles on the returned records,
//! minimises failures and writes replay files and evidence.

mod exec;
mod workload;

use exec::Pool;
use serde_json::{json, Value};
use simcore::{Evidence, Fnv, Rng, Tier};
use std::collections::{BTreeMap, BTreeSet};
use std::path::{Path, PathBuf};
use workload::{Corpus, C29Config, C30Config};

const ENGINE_C29: u64 = 0x29;
const ENGINE_C30: u64 = 0x30;

fn harness_error(msg: &str) -> ! {
    println!("HARNESS-ERROR: {msg}");
    std::process::exit(simcore::EXIT_HARNESS);
}

#[derive(Clone, Debug)]
struct Finding {
    /// signature class (used for minimisation and the known-findings file)
    class: String,
    /// call site / input key inside the class
    key: String,
    detail: String,
}

// ---------------------------------------------------------------------------
// classification of the corpus (reference behaviour of single texts)
// ---------------------------------------------------------------------------

fn reference_spec(uri: &str, version: i64, text: &str, max_k: u64, hash_seed: u64, init: &Value) -> Value {
    json!({
        "run": "ref",
        "hash_seed": hash_seed,
        "max_k": max_k,
        "init": init,
        "ops": [{"t": "open", "uri": uri, "version": version, "text": text}],
        "sched": {"mode": "canonical"},
    })
}

fn publishes_for<'a>(rec: &'a Value, uri: &str) -> Vec<&'a Value> {
    rec["out"]
        .as_array()
        .map(|a| {
            a.iter()
                .filter(|o| o["kind"] == "publish" && o["uri"].as_str() == Some(uri))
                .collect()
        })
        .unwrap_or_default()
}

fn classify(pool: &Pool, corpus: &mut Corpus) {
    let mut specs = vec![];
    let mut keys = vec![];
    for (i, t) in corpus.texts.iter().enumerate() {
        for k in 1..=3u64 {
            let text = workload::instantiate(t, 0);
            specs.push(reference_spec(&workload::uri(0), 1, &text, k, 1, &json!({"capabilities": {}})));
            keys.push((i, k));
        }
    }
    let recs = pool.run(&specs);
    for ((i, k), rec) in keys.into_iter().zip(recs) {
        let u = workload::uri(0);
        let pubs = publishes_for(&rec, &u);
        let main_ok = rec["main"]["exit"] == "ok";
        let class = if !main_ok || rec.get("harness_error").is_some() {
            "crash"
        } else {
            let n_threads = rec["threads"].as_array().map(|a| a.len()).unwrap_or(0);
            let last = pubs.last();
            let nonempty = last
                .and_then(|p| p["diagnostics"].as_array())
                .map(|a| !a.is_empty())
                .unwrap_or(false);
            if n_threads == 0 {
                if nonempty { "sync_error" } else { "ok" }
            } else if !nonempty {
                "ok"
            } else if last.map(|p| p["by"] != 0).unwrap_or(false) {
                let sev = last.unwrap()["diagnostics"][0]["severity"].as_u64().unwrap_or(1);
                if sev >= 2 { "bg_warn" } else { "bg_error" }
            } else {
                "sync_error"
            }
        };
        corpus.classes.insert(
            (i, k),
            workload::ClassInfo {
                class: class.to_string(),
                diagnostics: pubs.last().map(|p| p["diagnostics"].clone()).unwrap_or(Value::Null),
            },
        );
    }
}

// ---------------------------------------------------------------------------
// C29 oracle
// ---------------------------------------------------------------------------

fn canon_diags(d: &Value) -> Vec<String> {
    let mut v: Vec<String> = d
        .as_array()
        .map(|a| {
            a.iter()
                .map(|x| {
                    let mut x = x.clone();
                    if let Some(ri) = x.get_mut("relatedInformation").and_then(|r| r.as_array_mut()) {
                        ri.sort_by_key(|r| r.to_string());
                    }
                    x.to_string()
                })
                .collect()
        })
        .unwrap_or_default();
    v.sort();
    v
}

/// final (op index, version, text) per URI that is still open at the end
fn final_edits(spec: &Value) -> BTreeMap<String, (usize, i64, String, u64)> {
    edits_at(spec, usize::MAX)
}

/// the same for the prefix of the first `n_ops` operations
fn edits_at(spec: &Value, n_ops: usize) -> BTreeMap<String, (usize, i64, String, u64)> {
    let mut m = BTreeMap::new();
    // the lookahead limit in effect when an edit is handled: `-k`, then the initialization
    // options, then every workspace/didChangeConfiguration seen so far
    let mut cur_k = spec["max_k"].as_u64().unwrap_or(3);
    if let Some(k) = spec["init"]["initializationOptions"]["max_k"].as_u64() {
        cur_k = k;
    }
    for (i, op) in spec["ops"].as_array().into_iter().flatten().enumerate().take(n_ops) {
        let u = op["uri"].as_str().unwrap_or("").to_string();
        match op["t"].as_str() {
            Some("open") | Some("change") => {
                m.insert(u, (i, op["version"].as_i64().unwrap_or(0), op["text"].as_str().unwrap_or("").to_string(), cur_k));
            }
            Some("close") => {
                m.remove(&u);
            }
            Some("config") => {
                if let Some(k) = op["settings"]["max_k"].as_u64() {
                    cur_k = k;
                }
            }
            _ => {}
        }
    }
    m
}

/// Intermediate quiescent points of a run (DESIGN §3.6): op indices i (not the last op) such that
/// every analysis thread spawned while ops 0..=i were handled had exited before the main thread
/// reached the message boundary of op i+1.  At such a point the run so far *is* a complete run of
/// the history ops[0..=i] - all its analyses have finished, nothing of the later ops has happened -
/// so the property's oracle applies to it as it does to the whole history.  Outputs of the prefix
/// are those recorded with `after_msgs <= i+1`.
fn quiescent_prefixes(spec: &Value, rec: &Value) -> Vec<usize> {
    let n_ops = spec["ops"].as_array().map(|a| a.len()).unwrap_or(0);
    let threads: Vec<Value> = rec["threads"].as_array().cloned().unwrap_or_default();
    if rec["main"]["exit"] != "ok" || rec["deadlock"].as_bool() == Some(true) {
        return vec![];
    }
    // records written before this field existed (old replay files) give no intermediate points
    if threads.iter().any(|t| t.get("exit_after_msgs").and_then(|v| v.as_i64()).is_none()) {
        return vec![];
    }
    let mut v = vec![];
    for i in 0..n_ops.saturating_sub(1) {
        // only after an edit: the state after other operations is checked at the next edit anyway
        if !matches!(spec["ops"][i]["t"].as_str(), Some("open") | Some("change") | Some("config")) {
            continue;
        }
        let quiet = threads.iter().all(|t| {
            let sop = t["spawned_by_op"].as_i64().unwrap_or(-1);
            let ex = t["exit_after_msgs"].as_i64().unwrap_or(-1);
            sop > i as i64 || (ex >= 0 && ex <= i as i64 + 1)
        });
        if quiet {
            v.push(i);
        }
    }
    v
}

/// Reference runs use one fixed hash seed: the oracle compares canonically sorted diagnostics,
/// and a reference is then shared by all runs that end in the same (uri, version, text, k).
const REF_HASH_SEED: u64 = 0x5EED;

fn ref_key(uri: &str, version: i64, text: &str, k: u64) -> String {
    format!("{uri}|{version}|{}|{k}", simcore::fnv_hex(text.as_bytes()))
}

struct C29Stats {
    /// publish-order signature of the run checked last
    last_sig: String,
    uri_checks: u64,
    prefix_checks: u64,
    reference_crash: u64,
    main_crash: u64,
    stale_completion: u64,
    fast_completion: u64,
    overlap2: u64,
    bg_crash: u64,
    bg_crash_final: u64,
    bg_panic: u64,
    signatures: BTreeSet<String>,
    nontrivial_signatures: BTreeSet<String>,
}

fn check_c29(spec: &Value, rec: &Value, refs: &BTreeMap<String, Value>, stats: Option<&mut C29Stats>) -> Vec<Finding> {
    let mut findings = vec![];
    if rec["deadlock"].as_bool() == Some(true) {
        findings.push(Finding {
            class: "deadlock".into(),
            key: String::new(),
            detail: "all live server threads blocked on modelled locks: background analyses never finish".into(),
        });
        return findings;
    }
    let main_ok = rec["main"]["exit"] == "ok";
    let ops: Vec<Value> = spec["ops"].as_array().cloned().unwrap_or_default();
    let finals = final_edits(spec);
    let out: Vec<Value> = rec["out"].as_array().cloned().unwrap_or_default();
    let threads: Vec<Value> = rec["threads"].as_array().cloned().unwrap_or_default();

    // probes / signatures
    let mut local = C29Stats {
        last_sig: String::new(),
        uri_checks: 0,
        prefix_checks: 0,
        reference_crash: 0,
        main_crash: 0,
        stale_completion: 0,
        fast_completion: 0,
        overlap2: 0,
        bg_crash: 0,
        bg_crash_final: 0,
        bg_panic: 0,
        signatures: BTreeSet::new(),
        nontrivial_signatures: BTreeSet::new(),
    };
    if !main_ok {
        local.main_crash += 1;
    }
    if rec["max_live_bg"].as_u64().unwrap_or(0) >= 2 {
        local.overlap2 += 1;
    }
    // next edit of the same uri after op i
    let next_edit_of = |i: usize| -> Option<usize> {
        let u = ops[i]["uri"].as_str()?;
        ops.iter().enumerate().skip(i + 1).find(|(_, o)| {
            o["uri"].as_str() == Some(u) && matches!(o["t"].as_str(), Some("change") | Some("close"))
        }).map(|(j, _)| j)
    };
    let mut sig = String::new();
    let mut nontrivial = false;
    for o in &out {
        if o["kind"] != "publish" {
            continue;
        }
        let by = o["by"].as_u64().unwrap_or(0);
        let empty = o["diagnostics"].as_array().map(|a| a.is_empty()).unwrap_or(true);
        let u = o["uri"].as_str().unwrap_or("");
        let doc = u.trim_start_matches("file:///sim/doc").trim_end_matches(".par");
        let ver = o["version"].as_i64().unwrap_or(-1);
        // rank of the version among the edits of this uri
        let rank = ops.iter().filter(|p| p["uri"].as_str() == Some(u) && p["version"].as_i64().map(|v| v <= ver).unwrap_or(false) && matches!(p["t"].as_str(), Some("open") | Some("change"))).count();
        sig.push_str(&format!("{}{}v{}{};", if by == 0 { 'M' } else { 'B' }, doc, rank, if empty { 'o' } else { 'x' }));
        if by != 0 {
            if let Some(t) = threads.iter().find(|t| t["id"].as_u64() == Some(by)) {
                let sop = t["spawned_by_op"].as_i64().unwrap_or(-1);
                if sop >= 0 {
                    let after = o["after_msgs"].as_u64().unwrap_or(0) as usize;
                    if let Some(ne) = next_edit_of(sop as usize) {
                        if after > ne {
                            local.stale_completion += 1;
                            nontrivial = true;
                        }
                    }
                    // fast: published before the main thread's own publish of the same version
                    let my_step = o["step"].as_u64().unwrap_or(0);
                    let main_pub_later = out.iter().any(|m| {
                        m["kind"] == "publish" && m["by"] == 0 && m["uri"] == o["uri"] && m["version"] == o["version"]
                            && m["step"].as_u64().unwrap_or(0) > my_step
                    });
                    if main_pub_later {
                        local.fast_completion += 1;
                        nontrivial = true;
                    }
                }
            }
        }
    }
    for t in &threads {
        match t["exit"].as_str() {
            Some("injected_crash") => local.bg_crash += 1,
            Some("ok") => {}
            _ => local.bg_panic += 1,
        }
    }
    local.signatures.insert(sig.clone());
    local.last_sig = sig.clone();
    if nontrivial {
        local.nontrivial_signatures.insert(sig);
    }

    // check points: every intermediate quiescent point, then the end of the history
    let n_ops = ops.len();
    let mut points: Vec<(usize, bool)> = if main_ok { quiescent_prefixes(spec, rec).into_iter().map(|i| (i, true)).collect() } else { vec![] };
    if main_ok {
        points.push((n_ops.saturating_sub(1), false));
    }
    for (upto, intermediate) in points {
        let finals_here = if intermediate { edits_at(spec, upto + 1) } else { finals.clone() };
        for (uri, (op_idx, version, text, k)) in &finals_here {
            let rk = ref_key(uri, *version, text, *k);
            let Some(reference) = refs.get(&rk) else { continue };
            if reference["main"]["exit"] != "ok" || reference.get("harness_error").is_some() {
                local.reference_crash += 1;
                continue;
            }
            local.uri_checks += 1;
            if intermediate {
                local.prefix_checks += 1;
            }
            let ref_pubs = publishes_for(reference, uri);
            let pubs: Vec<&Value> = publishes_for(rec, uri)
                .into_iter()
                .filter(|p| !intermediate || p["after_msgs"].as_u64().unwrap_or(u64::MAX) <= upto as u64 + 1)
                .collect();
            let Some(ref_last) = ref_pubs.last() else { continue };
            let Some(last) = pubs.last() else {
                findings.push(Finding {
                    class: "no-publish".into(),
                    key: String::new(),
                    detail: format!("{uri}: nothing was published although the reference run publishes"),
                });
                continue;
            };
            let want = canon_diags(&ref_last["diagnostics"]);
            let got = canon_diags(&last["diagnostics"]);
            let got_version = last["version"].as_i64().unwrap_or(-1);
            // narrow relaxation: the analysis thread of the final edit was crashed by the simulator
            let crashed_final = threads.iter().any(|t| {
                t["exit"] == "injected_crash" && t["spawned_by_op"].as_i64() == Some(*op_idx as i64)
            });
            if crashed_final {
                local.bg_crash_final += 1;
            }
            let mut ok = got_version == *version && got == want;
            if !ok && crashed_final && got_version == *version {
                if let Some(main_pub) = ref_pubs.iter().find(|p| p["by"] == 0) {
                    ok = got == canon_diags(&main_pub["diagnostics"]);
                }
            }
            if ok {
                continue;
            }
            let class = if got_version != *version {
                "stale-version-last"
            } else if last["by"] == 0
                && pubs.iter().any(|p| p["by"] != 0 && p["version"].as_i64() == Some(*version))
            {
                "final-version-overwritten"
            } else {
                "wrong-content"
            };
            findings.push(Finding {
                class: class.into(),
                key: String::new(),
                detail: format!(
                    "{uri}: {}final edit is op {op_idx} (version {version}); last publish has version {got_version} by thread {} with {} diagnostics, reference has {}",
                    if intermediate { format!("at the quiescent point after op {upto}: ") } else { String::new() },
                    last["by"], got.len(), want.len()
                ),
            });
        }
    }
    if let Some(s) = stats {
        s.last_sig = local.last_sig.clone();
        s.uri_checks += local.uri_checks;
        s.prefix_checks += local.prefix_checks;
        s.reference_crash += local.reference_crash;
        s.main_crash += local.main_crash;
        s.stale_completion += local.stale_completion;
        s.fast_completion += local.fast_completion;
        s.overlap2 += local.overlap2;
        s.bg_crash += local.bg_crash;
        s.bg_crash_final += local.bg_crash_final;
        s.bg_panic += local.bg_panic;
        s.signatures.extend(local.signatures);
        s.nontrivial_signatures.extend(local.nontrivial_signatures);
    }
    findings
}

fn needed_refs(spec: &Value, rec: &Value) -> Vec<(String, Value)> {
    let mut all = vec![final_edits(spec)];
    for i in quiescent_prefixes(spec, rec) {
        all.push(edits_at(spec, i + 1));
    }
    let mut seen = BTreeSet::new();
    let mut v = vec![];
    for m in all {
        for (uri, (_, version, text, k)) in m {
            let key = ref_key(&uri, version, &text, k);
            if seen.insert(key.clone()) {
                v.push((key, reference_spec(&uri, version, &text, k, REF_HASH_SEED, &json!({"capabilities": {}}))));
            }
        }
    }
    v
}

// ---------------------------------------------------------------------------
// C30 oracle
// ---------------------------------------------------------------------------

fn panic_location(exit: &str) -> String {
    // "panic:<msg> [in <innermost server frame>] @ <file>:<line>"
    if let Some((_, rest)) = exit.rsplit_once(" [in ") {
        if let Some((frame, loc)) = rest.split_once("] @ ") {
            if loc.contains("crates/") {
                return loc[loc.find("crates/").unwrap()..].trim().to_string();
            }
            if !frame.is_empty() {
                // strip generic hashes: keep the path of the function
                let f = frame.split("::h").next().unwrap_or(frame);
                return f.to_string();
            }
        }
    }
    match exit.rsplit_once(" @ ") {
        Some((_, loc)) => {
            let loc = loc.trim();
            // strip the path prefix up to the crate directory
            match loc.find("crates/") {
                Some(i) => loc[i..].to_string(),
                None => loc.to_string(),
            }
        }
        None => "unknown".into(),
    }
}

struct C30Stats {
    requests: u64,
    responses_ok: u64,
    notification_panics: BTreeMap<String, u64>,
    cells: BTreeSet<String>,
    result_kinds: BTreeMap<String, u64>,
}

fn check_c30(spec: &Value, rec: &Value, stats: Option<&mut C30Stats>) -> Vec<Finding> {
    let mut findings = vec![];
    let ops: Vec<Value> = spec["ops"].as_array().cloned().unwrap_or_default();
    let exit = rec["main"]["exit"].as_str().unwrap_or("");
    let seen = rec["main"]["msgs_seen"].as_u64().unwrap_or(0) as usize;
    let mut local_np: BTreeMap<String, u64> = BTreeMap::new();
    let mut crashed_at: Option<usize> = None;
    if rec["deadlock"].as_bool() == Some(true) {
        findings.push(Finding { class: "deadlock".into(), key: String::new(), detail: "server threads deadlocked".into() });
        return findings;
    }
    if exit != "ok" {
        let idx = seen.saturating_sub(1);
        crashed_at = Some(idx);
        let op = ops.get(idx).cloned().unwrap_or(Value::Null);
        if op["t"] == "req" {
            let method = op["method"].as_str().unwrap_or("?");
            if exit.starts_with("panic:") {
                findings.push(Finding {
                    class: "request-panic".into(),
                    key: format!("{}@{}", method.trim_start_matches("textDocument/"), panic_location(exit)),
                    detail: format!("op {idx} {method}: {}", exit.chars().take(300).collect::<String>()),
                });
            } else {
                findings.push(Finding {
                    class: "request-error-exit".into(),
                    key: method.trim_start_matches("textDocument/").to_string(),
                    detail: format!("op {idx} {method}: main loop ended with {exit}"),
                });
            }
        } else {
            *local_np
                .entry(format!("{}@{}", op["t"].as_str().unwrap_or("?"), panic_location(exit)))
                .or_default() += 1;
        }
    }
    let out: Vec<Value> = rec["out"].as_array().cloned().unwrap_or_default();
    let mut n_req = 0;
    let mut n_ok = 0;
    let mut cells = BTreeSet::new();
    let mut kinds: BTreeMap<String, u64> = BTreeMap::new();
    for (i, op) in ops.iter().enumerate() {
        if op["t"] != "req" {
            continue;
        }
        if !rec["child_died"].is_null() {
            break; // the run's process died without a record: nothing is known about earlier responses
        }
        if let Some(c) = crashed_at {
            if i >= c {
                continue; // not handled (the crash itself was reported above)
            }
        }
        n_req += 1;
        let id = &op["id"];
        let resps: Vec<&Value> = out.iter().filter(|o| o["kind"] == "response" && &o["id"] == id).collect();
        let method = op["method"].as_str().unwrap_or("?").trim_start_matches("textDocument/");
        if resps.len() != 1 {
            findings.push(Finding {
                class: "response-count".into(),
                key: method.to_string(),
                detail: format!("op {i} {method} id {id}: {} responses", resps.len()),
            });
            continue;
        }
        if !resps[0]["error"].is_null() {
            findings.push(Finding {
                class: "error-response".into(),
                key: method.to_string(),
                detail: format!("op {i} {method}: {}", resps[0]["error"]),
            });
            continue;
        }
        n_ok += 1;
        cells.insert(format!(
            "{method}|{}|{}",
            op["tclass"].as_str().unwrap_or("?"),
            op["pclass"].as_str().unwrap_or("?")
        ));
        *kinds
            .entry(format!("{method}:{}", resps[0]["result_kind"].as_str().unwrap_or("?")))
            .or_default() += 1;
    }
    if let Some(s) = stats {
        s.requests += n_req;
        s.responses_ok += n_ok;
        for (k, v) in local_np {
            *s.notification_panics.entry(k).or_default() += v;
        }
        s.cells.extend(cells);
        for (k, v) in kinds {
            *s.result_kinds.entry(k).or_default() += v;
        }
    }
    findings
}

// ---------------------------------------------------------------------------
// evaluation of a spec under one property (used by search, minimisation, replay)
// ---------------------------------------------------------------------------

struct Ctx<'a> {
    pool: &'a Pool,
    property: String,
}

impl Ctx<'_> {
    /// Runs the specs (plus the reference runs C29 needs) and returns (record, findings) each.
    fn evaluate(&self, specs: &[Value]) -> Vec<(Value, Vec<Finding>)> {
        let recs = self.pool.run(specs);
        if self.property == "C29" {
            let mut refs: BTreeMap<String, Value> = BTreeMap::new();
            let mut ref_specs = vec![];
            let mut ref_keys = vec![];
            for (s, r) in specs.iter().zip(recs.iter()) {
                for (k, rs) in needed_refs(s, r) {
                    if !refs.contains_key(&k) {
                        refs.insert(k.clone(), Value::Null);
                        ref_keys.push(k);
                        ref_specs.push(rs);
                    }
                }
            }
            let ref_recs = self.pool.run(&ref_specs);
            for (k, r) in ref_keys.into_iter().zip(ref_recs) {
                refs.insert(k, r);
            }
            specs
                .iter()
                .zip(recs)
                .map(|(s, r)| {
                    let f = check_c29(s, &r, &refs, None);
                    (r, f)
                })
                .collect()
        } else {
            specs
                .iter()
                .zip(recs)
                .map(|(s, r)| {
                    let f = check_c30(s, &r, None);
                    (r, f)
                })
                .collect()
        }
    }
}

/// Keep only protocol-conforming histories after ops were removed: nothing for a URI before
/// its open / after its close, an open only once.
fn repair_ops(ops: &[Value]) -> Vec<Value> {
    let mut open: BTreeSet<String> = BTreeSet::new();
    let mut out = vec![];
    for op in ops {
        let u = op["uri"].as_str().map(|s| s.to_string()).or_else(|| {
            op["params"]["textDocument"]["uri"].as_str().map(|s| s.to_string())
        });
        match (op["t"].as_str(), u) {
            (Some("open"), Some(u)) => {
                if open.insert(u) {
                    out.push(op.clone());
                }
            }
            (Some("change"), Some(u)) => {
                if open.contains(&u) {
                    out.push(op.clone());
                } else {
                    // a change whose open was removed becomes the open
                    let mut o = op.clone();
                    o["t"] = json!("open");
                    if let Some(m) = o.as_object_mut() {
                        m.remove("changes");
                    }
                    open.insert(u);
                    out.push(o);
                }
            }
            (Some("close"), Some(u)) => {
                if open.remove(&u) {
                    out.push(op.clone());
                }
            }
            (Some("req"), Some(u)) => {
                if open.contains(&u) {
                    out.push(op.clone());
                }
            }
            _ => out.push(op.clone()),
        }
    }
    out
}

fn schedules_to_try(base_seed: u64, n: usize) -> Vec<Value> {
    let mut v = vec![json!({"mode": "canonical"})];
    let strategies = ["uniform", "sticky", "timed", "pct"];
    for i in 0..n {
        v.push(json!({
            "mode": "seed",
            "seed": simcore::mix(&[base_seed, i as u64]) >> 1,
            "strategy": strategies[i % strategies.len()],
            "bg_crash_permille": 0,
            "pct_depth": 1 + (i % 3),
            "mean_gap_us": if i % 2 == 0 { 1_000 } else { 150_000 },
        }));
    }
    v
}

/// Delta debugging over the operation list; every candidate is retried under the canonical
/// and a number of freshly seeded schedules.  Returns the minimised spec with an explicit
/// schedule, its record and finding.
fn minimise(ctx: &Ctx, spec: &Value, rec: &Value, finding: &Finding) -> (Value, Value, Finding) {
    let class = finding.class.clone();
    let key = finding.key.clone();
    let ops: Vec<Value> = spec["ops"].as_array().cloned().unwrap_or_default();
    let mut best: (Value, Value, Finding) = (explicit_spec(spec, rec), rec.clone(), finding.clone());
    let mut budget = 400usize;
    let try_ops = |cand_ops: &[Value], best: &mut (Value, Value, Finding), budget: &mut usize| -> bool {
        if *budget == 0 {
            return false;
        }
        *budget -= 1;
        let cand_ops = repair_ops(cand_ops);
        if cand_ops.is_empty() {
            return false;
        }
        let mut specs = vec![];
        // the crash set of the original run stays available to explicit/canonical schedules
        for mut sch in schedules_to_try(spec["hash_seed"].as_u64().unwrap_or(1), 20) {
            if sch["mode"] == "canonical" {
                sch["crash"] = rec["crashed"].clone();
            }
            let mut s = spec.clone();
            s["ops"] = json!(cand_ops);
            s["sched"] = sch;
            specs.push(s);
        }
        let res = ctx.evaluate(&specs);
        for (s, (r, fs)) in specs.iter().zip(res) {
            if let Some(f) = fs.iter().find(|f| f.class == class && f.key == key) {
                *best = (explicit_spec(s, &r), r, f.clone());
                return true;
            }
        }
        false
    };
    let small = simcore::ddmin(&ops, |cand| try_ops(cand, &mut best, &mut budget));
    let _ = small;
    // texts: drop lines of every document text while the same violation persists
    let n_ops_min = best.0["ops"].as_array().map(|a| a.len()).unwrap_or(0);
    for oi in 0..n_ops_min {
        let cur_ops: Vec<Value> = best.0["ops"].as_array().cloned().unwrap_or_default();
        let Some(text) = cur_ops[oi]["text"].as_str().map(|s| s.to_string()) else { continue };
        let lines: Vec<String> = text.split('\n').map(|l| l.to_string()).collect();
        if lines.len() < 2 {
            continue;
        }
        let mut text_budget = 90usize;
        let shrunk = simcore::ddmin(&lines, |cand| {
            if text_budget == 0 {
                return false;
            }
            text_budget -= 1;
            let mut ops2 = cur_ops.clone();
            ops2[oi]["text"] = json!(cand.join("\n"));
            if let Some(m) = ops2[oi].as_object_mut() {
                m.remove("changes");
            }
            let mut b2 = budget.max(1);
            try_ops(&ops2, &mut best, &mut b2)
        });
        let _ = shrunk;
    }
    // schedule simplification: prefer "the deciding thread continues" at every decision
    let (mut spec_b, mut rec_b, mut f_b) = best;
    let mut choices: Vec<u64> = spec_b["sched"]["choices"].as_array().map(|a| a.iter().map(|v| v.as_u64().unwrap_or(0)).collect()).unwrap_or_default();
    let decisions: Vec<Value> = rec_b["decisions"].as_array().cloned().unwrap_or_default();
    let mut i = 0;
    let mut tries = 0;
    while i < choices.len() && tries < 60 {
        let decider = decisions.get(i).and_then(|d| d[1].as_u64()).unwrap_or(0);
        let code = decisions.get(i).and_then(|d| d[0].as_u64()).unwrap_or(0);
        if choices[i] != decider && code != 5 {
            tries += 1;
            let mut c2 = choices.clone();
            c2[i] = decider;
            // everything after the changed decision follows the canonical rule
            c2.truncate(i + 1);
            let mut s = spec_b.clone();
            s["sched"]["choices"] = json!(c2);
            let mut res = ctx.evaluate(std::slice::from_ref(&s));
            let (r, fs) = res.pop().unwrap();
            if let Some(f) = fs.iter().find(|f| f.class == class && f.key == key) {
                spec_b = explicit_spec(&s, &r);
                choices = spec_b["sched"]["choices"].as_array().map(|a| a.iter().map(|v| v.as_u64().unwrap_or(0)).collect()).unwrap_or_default();
                rec_b = r;
                f_b = f.clone();
                // decisions may have shifted: restart from this index with the new trace
                let d2: Vec<Value> = rec_b["decisions"].as_array().cloned().unwrap_or_default();
                if d2.len() != decisions.len() {
                    break;
                }
            }
        }
        i += 1;
    }
    (spec_b, rec_b, f_b)
}

/// The same spec with the schedule the record actually took, made explicit.
fn explicit_spec(spec: &Value, rec: &Value) -> Value {
    let mut s = spec.clone();
    s["sched"] = json!({"mode": "explicit", "choices": rec["choices"], "crash": rec["crashed"]});
    s
}

fn write_replay(property: &str, seed: u64, n: u64, spec: &Value, rec: &Value, f: &Finding) -> PathBuf {
    let body = json!({
        "engine": "ls-sim",
        "property": property,
        "seed": seed.to_string(),
        "signature": {"class": f.class, "key": f.key},
        "detail": f.detail,
        "expected_log_hash": rec["log_hash"],
        "spec": spec,
        "observed_out": rec["out"].as_array().map(|a| a.iter().map(|o| {
            json!({"kind": o["kind"], "by": o["by"], "uri": o["uri"], "version": o["version"], "id": o["id"],
                   "n_diagnostics": o["diagnostics"].as_array().map(|d| d.len()), "after_msgs": o["after_msgs"]})
        }).collect::<Vec<_>>()),
        "threads": rec["threads"],
        "main": rec["main"],
    });
    simcore::write_replay(property, seed, n, &body).unwrap_or_else(|e| harness_error(&format!("cannot write replay: {e}")))
}

fn replay(ctx: &Ctx, path: &Path) -> i32 {
    let v = simcore::read_json(path).unwrap_or_else(|e| harness_error(&e));
    let spec = v["spec"].clone();
    let mut res = ctx.evaluate(std::slice::from_ref(&spec));
    let (rec, fs) = res.pop().unwrap();
    if rec.get("harness_error").is_some() || rec["watchdog"].as_bool() == Some(true) {
        harness_error(&format!("replay run failed: {}", rec["harness_error"]));
    }
    let class = v["signature"]["class"].as_str().unwrap_or("");
    let key = v["signature"]["key"].as_str().unwrap_or("");
    let same = fs.iter().find(|f| f.class == class && f.key == key);
    let hash_match = rec["log_hash"] == v["expected_log_hash"];
    if let Some(f) = same {
        println!(
            "replay: reproduced {} {} ({}); event log hash {} the recorded one{}",
            f.class,
            f.key,
            f.detail,
            if hash_match { "matches" } else { "DIFFERS from" },
            if rec["explicit_mismatch"].as_bool() == Some(true) { " (explicit schedule had to fall back)" } else { "" }
        );
        println!("VIOLATION property={} replay={}", ctx.property, path.display());
        simcore::EXIT_VIOLATION
    } else if let Some(f) = fs.first() {
        println!("replay: a different violation appears: {} {} ({})", f.class, f.key, f.detail);
        println!("VIOLATION property={} replay={}", ctx.property, path.display());
        simcore::EXIT_VIOLATION
    } else {
        println!("replay: not reproduced - the property holds on this history and schedule");
        simcore::EXIT_OK
    }
}

// ---------------------------------------------------------------------------
// batches
// ---------------------------------------------------------------------------

fn scale() -> f64 {
    std::env::var("VERIF_SCALE").ok().and_then(|s| s.parse().ok()).unwrap_or(1.0)
}

fn gen_specs(property: &str, seed: u64, tier: Tier, corpus: &Corpus, n: usize) -> Vec<Value> {
    let mut specs = Vec::with_capacity(n);
    for i in 0..n {
        let mut spec = if property == "C29" {
            let mut rng = Rng::for_run(seed, ENGINE_C29, i as u64);
            // swarm: a third of the runs are short histories on one document, fault free
            let shape = rng.below(6);
            let cfg = match shape {
                0 | 1 => C29Config { max_docs: 1, max_edits: 3, faulty: false, reopen: false, config_changes: false, derived: false },
                2 => C29Config { max_docs: 2, max_edits: 5, faulty: false, reopen: true, config_changes: false, derived: true },
                3 => C29Config { max_docs: 1, max_edits: 4, faulty: true, reopen: true, config_changes: true, derived: true },
                _ => C29Config { max_docs: 3, max_edits: if tier == Tier::Thorough { 12 } else { 8 }, faulty: true, reopen: true, config_changes: true, derived: true },
            };
            workload::gen_c29(&mut rng, corpus, &cfg)
        } else {
            let mut rng = Rng::for_run(seed, ENGINE_C30, i as u64);
            let cfg = match rng.below(3) {
                0 => C30Config { max_docs: 1, max_edits: 1, max_requests: 6, mutate: false },
                1 => C30Config { max_docs: 2, max_edits: 4, max_requests: 12, mutate: true },
                _ => C30Config { max_docs: 3, max_edits: 8, max_requests: 20, mutate: true },
            };
            workload::gen_c30(&mut rng, corpus, &cfg)
        };
        spec["run"] = json!(i);
        specs.push(spec);
    }
    specs
}

fn spec_sample(spec: &Value) -> Value {
    let ops: Vec<Value> = spec["ops"]
        .as_array()
        .into_iter()
        .flatten()
        .map(|o| {
            let mut m = serde_json::Map::new();
            for k in ["t", "uri", "version", "src", "class", "method", "id", "pclass"] {
                if !o[k].is_null() {
                    m.insert(k.into(), o[k].clone());
                }
            }
            if let Some(p) = o["params"].get("position") {
                m.insert("position".into(), p.clone());
            }
            Value::Object(m)
        })
        .collect();
    json!({"run": spec["run"], "max_k": spec["max_k"], "sched": spec["sched"], "ops": ops})
}

fn run_batch(ctx: &Ctx, tier: Tier, corpus: &Corpus, emit_log: Option<&Path>) -> i32 {
    let t0 = std::time::Instant::now();
    let seed = simcore::env_seed();
    let property = ctx.property.as_str();
    let n = match (property, tier) {
        ("C29", Tier::Quick) => 2500,
        ("C29", Tier::Thorough) => 40_000,
        (_, Tier::Quick) => 6000,
        (_, Tier::Thorough) => 30_000,
    };
    let n = ((n as f64) * scale()) as usize;
    let specs = gen_specs(property, seed, tier, corpus, n.max(1));
    println!(
        "ls-sim: property={property} tier={} seed={seed} runs={} executors={} corpus={} texts",
        tier.as_str(),
        specs.len(),
        ctx.pool.workers,
        corpus.texts.len()
    );
    let recs = ctx.pool.run(&specs);

    // harness-level problems first: they are never verdicts
    let mut harness_problems = 0;
    for r in &recs {
        if r.get("harness_error").is_some() || r["watchdog"].as_bool() == Some(true) {
            harness_problems += 1;
            if harness_problems <= 3 {
                println!("HARNESS-ERROR: run {}: {} watchdog={}", r["run"], r["harness_error"], r["watchdog"]);
            }
        }
    }

    let mut log = Fnv::new();
    let mut log_lines = vec![];
    for r in &recs {
        let l = format!("{} {}", r["run"], r["log_hash"].as_str().unwrap_or("-"));
        log.write_str(&l);
        log_lines.push(l);
    }
    if let Some(p) = emit_log {
        let _ = std::fs::write(p, log_lines.join("\n") + "\n");
    }
    let dry = emit_log.is_some();

    let mut all: Vec<(usize, Finding)> = vec![];
    let mut ev = Evidence::new(property, tier, seed);
    let mut sim_time_us = 0u64;
    let mut steps = 0u64;
    let mut strategies: BTreeMap<String, u64> = BTreeMap::new();
    for (s, r) in specs.iter().zip(recs.iter()) {
        sim_time_us += r["sim_time_us"].as_u64().unwrap_or(0);
        steps += r["steps"].as_u64().unwrap_or(0);
        let st = s["sched"]["strategy"].as_str().unwrap_or(s["sched"]["mode"].as_str().unwrap_or("?"));
        *strategies.entry(st.to_string()).or_default() += 1;
    }
    if property == "C29" {
        // reference runs
        let mut refs: BTreeMap<String, Value> = BTreeMap::new();
        let mut ref_specs = vec![];
        let mut ref_keys = vec![];
        for (s, r) in specs.iter().zip(recs.iter()) {
            for (k, rs) in needed_refs(s, r) {
                if !refs.contains_key(&k) {
                    refs.insert(k.clone(), Value::Null);
                    ref_keys.push(k);
                    ref_specs.push(rs);
                }
            }
        }
        let ref_recs = ctx.pool.run(&ref_specs);
        for (k, r) in ref_keys.into_iter().zip(ref_recs) {
            refs.insert(k, r);
        }
        let mut st = C29Stats {
            last_sig: String::new(),
            uri_checks: 0,
            prefix_checks: 0,
            reference_crash: 0,
            main_crash: 0,
            stale_completion: 0,
            fast_completion: 0,
            overlap2: 0,
            bg_crash: 0,
            bg_crash_final: 0,
            bg_panic: 0,
            signatures: BTreeSet::new(),
            nontrivial_signatures: BTreeSet::new(),
        };
        let mut short_sigs: BTreeSet<String> = BTreeSet::new();
        let (mut short_runs, mut short_new_in_second_half) = (0u64, 0u64);
        for (i, (s, r)) in specs.iter().zip(recs.iter()).enumerate() {
            if r.get("harness_error").is_some() || r["watchdog"].as_bool() == Some(true) {
                continue;
            }
            for f in check_c29(s, r, &refs, Some(&mut st)) {
                all.push((i, f));
            }
            // saturation measure: signatures (incl. the op kinds) of histories with at most 3 ops
            let ops = s["ops"].as_array().map(|a| a.len()).unwrap_or(0);
            if ops <= 3 {
                short_runs += 1;
                let kinds: String = s["ops"].as_array().into_iter().flatten().map(|o| o["t"].as_str().unwrap_or("?").chars().next().unwrap_or('?')).collect();
                let key = format!("{kinds}|{}", st.last_sig);
                if short_sigs.insert(key) && i >= specs.len() / 2 {
                    short_new_in_second_half += 1;
                }
            }
        }
        ev.set("saturation_short_histories", json!({
            "histories_with_at_most_3_ops": short_runs,
            "distinct_(op kinds, publish-order signature)": short_sigs.len(),
            "first_seen_in_second_half_of_batch": short_new_in_second_half,
        }));
        ev.evaluations = st.uri_checks;
        ev.distinct_nontrivial = st.nontrivial_signatures.len() as u64;
        ev.rule = "one evaluation = one per-document check 'last published diagnostics == diagnostics of a single-edit reference run of the final text, tagged with the final version' after quiescence of a simulated history - at its end and at every intermediate point of the run at which all analyses started so far had finished before the next message was handled (such a point is the end of a complete run of the prefix; counted in probes.intermediate_quiescent_point_checks) - (1-3 documents, up to 8/12 open/change notifications, seeded thread schedule of the real main loop and analysis threads). distinct_nontrivial = distinct publish-order signatures (sequence of (publisher M/B, document, version rank, empty/non-empty)) that contain at least one background publish out of canonical position (after a later edit of the same document was handled, or before the main thread's own publish of that version).".into();
        ev.set("distinct_publish_order_signatures", json!(st.signatures.len()));
        ev.set("reference_runs", json!(refs.len()));
        ev.set("probes", json!({
            "intermediate_quiescent_point_checks": st.prefix_checks,
            "stale_completion": st.stale_completion, "fast_completion": st.fast_completion,
            "runs_with_overlap_ge_2": st.overlap2, "bg_crash_final": st.bg_crash_final,
            "main_crash_no_verdict": st.main_crash, "reference_crash_no_verdict": st.reference_crash,
            "bg_thread_panics_not_injected": st.bg_panic,
        }));
        ev.set("faults_fired", json!({
            "slow_or_stalled_analysis(publish after a later edit)": st.stale_completion,
            "fast_analysis(publish before main's own)": st.fast_completion,
            "overlapping_analyses(runs)": st.overlap2,
            "analysis_crash": st.bg_crash,
        }));
    } else {
        let mut st = C30Stats {
            requests: 0,
            responses_ok: 0,
            notification_panics: BTreeMap::new(),
            cells: BTreeSet::new(),
            result_kinds: BTreeMap::new(),
        };
        for (i, (s, r)) in specs.iter().zip(recs.iter()).enumerate() {
            if r.get("harness_error").is_some() || r["watchdog"].as_bool() == Some(true) {
                continue;
            }
            for f in check_c30(s, r, Some(&mut st)) {
                all.push((i, f));
            }
        }
        ev.evaluations = st.requests;
        ev.distinct_nontrivial = st.cells.len() as u64;
        ev.rule = "one evaluation = one request (hover, definition, documentSymbol, prepareRename, rename, formatting, codeAction) handled by the real main loop in a simulated history of opens/changes/configuration changes with in-flight analyses; checked: no panic, exactly one non-error response, main loop ends Ok. distinct_nontrivial = distinct cells (request kind x class of the document text at that moment x position class) that were answered.".into();
        ev.set("responses_ok", json!(st.responses_ok));
        ev.set("result_kinds", json!(st.result_kinds));
        ev.set("notification_panics_no_verdict", json!(st.notification_panics));
        for (k, n) in &st.notification_panics {
            println!("INFO: main loop crashed while handling a notification (outside C30's letter, no verdict): {k} ({n}x)");
        }
        let mut ff: BTreeMap<String, u64> = BTreeMap::new();
        let mut crashes = 0u64;
        let mut inflight = 0u64;
        for r in &recs {
            crashes += r["crashed"].as_array().map(|a| a.len() as u64).unwrap_or(0);
            if r["max_live_bg"].as_u64().unwrap_or(0) >= 1 {
                inflight += 1;
            }
        }
        ff.insert("analysis_crash".into(), crashes);
        ff.insert("runs_with_analysis_in_flight_during_requests".into(), inflight);
        ev.set("faults_fired", json!(ff));
    }

    // group findings by (class, key); known findings are reported, everything else is a violation
    let known = simcore::load_known_findings(property);
    let mut groups: BTreeMap<(String, String), Vec<usize>> = BTreeMap::new();
    for (i, f) in &all {
        groups.entry((f.class.clone(), f.key.clone())).or_default().push(*i);
    }
    let mut violations = 0u64;
    let mut known_seen: BTreeMap<String, u64> = BTreeMap::new();
    let mut n_replay = 0u64;
    for ((class, key), runs) in &groups {
        if let Some(k) = known.iter().find(|k| k.status == "open" && &k.class == class && (&k.key == key || k.key.is_empty() && key.is_empty())) {
            known_seen.insert(format!("{class} {key} :: {}", k.what), runs.len() as u64);
            continue;
        }
        violations += runs.len() as u64;
        if dry {
            continue;
        }
        // minimise the shortest failing history of this group
        let &i = runs
            .iter()
            .min_by_key(|i| specs[**i]["ops"].as_array().map(|a| a.len()).unwrap_or(0))
            .unwrap();
        let f = all.iter().find(|(j, f)| *j == i && &f.class == class && &f.key == key).map(|(_, f)| f.clone()).unwrap();
        let (ms, mr, mf) = minimise(ctx, &specs[i], &recs[i], &f);
        let path = write_replay(property, seed, n_replay, &ms, &mr, &mf);
        n_replay += 1;
        println!(
            "violation: {class} {key} in {} run(s); run {i} minimised from {} to {} ops: {}",
            runs.len(),
            specs[i]["ops"].as_array().map(|a| a.len()).unwrap_or(0),
            ms["ops"].as_array().map(|a| a.len()).unwrap_or(0),
            mf.detail
        );
        println!("VIOLATION property={property} replay={}", path.display());
    }
    for (k, n) in &known_seen {
        println!("KNOWN-FINDING: property={property} {k} (seen in {n} runs)");
    }

    let wall = t0.elapsed().as_secs_f64();
    let total_runs = ctx.pool.runs.load(std::sync::atomic::Ordering::Relaxed);
    ev.samples = specs.iter().take(2).map(spec_sample).collect();
    ev.violations = violations;
    ev.wall_s = wall;
    ev.set("runs", json!(specs.len()));
    ev.set("executor_runs_incl_reference_classification_minimisation", json!(total_runs));
    ev.set("runs_per_hour", json!((specs.len() as f64 / wall.max(0.001) * 3600.0) as u64));
    ev.set("sim_time_ms", json!(sim_time_us / 1000));
    ev.set("sched_steps", json!(steps));
    ev.set("strategies", json!(strategies));
    ev.set("event_log_hash", json!(log.hex()));
    ev.set("harness_problems", json!(harness_problems));
    ev.set("executor_restarts", json!(ctx.pool.restarts.load(std::sync::atomic::Ordering::Relaxed)));
    ev.set("known_findings_seen", json!(known_seen));
    ev.set("corpus_texts", json!(corpus.texts.len()));
    let mut class_hist: BTreeMap<String, u64> = BTreeMap::new();
    for c in corpus.classes.values() {
        *class_hist.entry(c.class.clone()).or_default() += 1;
    }
    ev.set("corpus_classes(text x max_k)", json!(class_hist));
    ev.set("real_components", json!([
        "parol-ls main_loop, process_notification, request dispatch, handler.rs, server.rs, document_state.rs, parol_ls_grammar.rs, generated LS parser, diagnostics.rs, formatter (built from /repo with --cfg parol_verif, dev profile)",
        "parol analysis (check_and_transform_grammar, calculate_lookahead_dfas, calculate_lalr1_parse_table)",
        "lsp_server::Connection::memory + lsp_types (de)serialisation",
        "real OS threads for the main loop and every analysis thread (released one at a time)",
    ]));
    ev.set("stubbed_components", json!(["stdio/TCP transport and the editor (the simulator is the client)", "OS entropy for RandomState keys (getrandom seam)", "stderr (to /dev/null)"]));
    ev.assumptions = vec![
        "threads interact only at intercepted points (message boundary, spawn, thread start/exit, modelled locks, publish); bare atomics would need further points".into(),
        "protocol-conforming client: no request/change for a document that is not open".into(),
    ];
    if !dry {
        if let Err(e) = ev.write() {
            harness_error(&format!("cannot write evidence: {e}"));
        }
    }
    println!(
        "ls-sim: {} runs ({} executor runs) in {:.1}s, {} evaluations, {} distinct non-trivial, violations {}, log={}",
        specs.len(), total_runs, wall, ev.evaluations, ev.distinct_nontrivial, violations, log.hex()
    );
    if harness_problems > 0 {
        println!("HARNESS-ERROR: {harness_problems} run(s) did not complete (watchdog / executor failure). A watchdog expiry means a server thread blocked somewhere the simulator has no point for - e.g. a lock without LockAcquire/LockReleased points, a join, a blocking receive. This is not a verdict.");
        return simcore::EXIT_HARNESS;
    }
    if violations > 0 {
        simcore::EXIT_VIOLATION
    } else {
        println!("OK property={property} held on everything explored");
        simcore::EXIT_OK
    }
}

fn run_selfcheck(exe: &Path, executor: &Path, property: &str) -> i32 {
    let dir = simcore::verif_root().join("scratch").join("ls-selfcheck").join(std::process::id().to_string());
    let _ = std::fs::create_dir_all(&dir);
    let mut logs = vec![];
    for (n, workers) in [(0, "16"), (1, "1")] {
        let log = dir.join(format!("log-{n}.txt"));
        let st = std::process::Command::new(exe)
            .args(["--property", property, "--tier", "quick", "--executor"])
            .arg(executor)
            .arg("--emit-log")
            .arg(&log)
            .env("VERIF_WORKERS", workers)
            .env("VERIF_SCALE", "0.7")
            .stdout(std::process::Stdio::null())
            .status();
        match st {
            Ok(s) if matches!(s.code(), Some(0) | Some(1)) => {}
            other => harness_error(&format!("selfcheck child failed: {other:?}")),
        }
        logs.push(std::fs::read_to_string(&log).unwrap_or_default());
    }
    let _ = std::fs::remove_dir_all(&dir);
    if logs[0].is_empty() || logs[0] != logs[1] {
        let diff = logs[0].lines().zip(logs[1].lines()).filter(|(a, b)| a != b).count();
        println!("HARNESS-ERROR: determinism self-check failed: {diff} of {} run logs differ between two processes", logs[0].lines().count());
        return simcore::EXIT_HARNESS;
    }
    println!("selfcheck: {} run logs identical across two process sets (16 vs 1 executors)", logs[0].lines().count());
    simcore::EXIT_OK
}

fn main() {
    let args: Vec<String> = std::env::args().collect();
    let mut tier = simcore::env_tier();
    let mut property = String::from("C29");
    let mut executor = simcore::verif_root().join("target-ls/debug/parol-ls");
    let mut replay_file: Option<PathBuf> = None;
    let mut emit_log: Option<PathBuf> = None;
    let mut selfcheck = false;
    let mut dump_run: Option<usize> = None;
    let mut i = 1;
    while i < args.len() {
        match args[i].as_str() {
            "--tier" => {
                i += 1;
                tier = if args.get(i).map(|s| s.as_str()) == Some("thorough") { Tier::Thorough } else { Tier::Quick };
            }
            "--property" => {
                i += 1;
                property = args.get(i).cloned().unwrap_or_default();
            }
            "--executor" => {
                i += 1;
                executor = args.get(i).map(PathBuf::from).unwrap_or(executor);
            }
            "--replay" => {
                i += 1;
                replay_file = args.get(i).map(PathBuf::from);
            }
            "--emit-log" => {
                i += 1;
                emit_log = args.get(i).map(PathBuf::from);
            }
            "--selfcheck" => selfcheck = true,
            "--dump-run" => {
                i += 1;
                dump_run = args.get(i).and_then(|s| s.parse().ok());
            }
            other => harness_error(&format!("unknown argument {other}")),
        }
        i += 1;
    }
    if property != "C29" && property != "C30" {
        harness_error("property must be C29 or C30");
    }
    if !executor.exists() {
        harness_error(&format!("executor {} missing", executor.display()));
    }
    if selfcheck {
        let exe = std::env::current_exe().unwrap();
        std::process::exit(run_selfcheck(&exe, &executor, &property));
    }
    let pool = Pool::new(executor, simcore::env_workers());
    let ctx = Ctx { pool: &pool, property: property.clone() };
    if let Some(p) = replay_file {
        std::process::exit(replay(&ctx, &p));
    }
    let mut corpus = workload::load_corpus(2500);
    classify(&pool, &mut corpus);
    if let Some(r) = dump_run {
        // debugging aid: print spec and record of one run of the batch
        let specs = gen_specs(&property, simcore::env_seed(), tier, &corpus, r + 1);
        let rec = pool.run(std::slice::from_ref(&specs[r])).pop().unwrap();
        println!("{}", serde_json::to_string(&json!({"spec": specs[r], "record": rec})).unwrap());
        std::process::exit(0);
    }
    let code = run_batch(&ctx, tier, &corpus, emit_log.as_deref());
    std::process::exit(code);
}
