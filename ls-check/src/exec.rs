//! Pool of executor processes (the hooked `parol-ls` binary with PAROL_LS_SIM=1).
//! One spec line in, one record line out; a child that dies (watchdog / deadlock
//! exit, crash) is restarted and the affected run is reported as a harness error.

use serde_json::{json, Value};
use std::io::{BufRead, BufReader, Write};
use std::path::PathBuf;
use std::process::{Child, ChildStdin, ChildStdout, Command, Stdio};
use std::sync::atomic::{AtomicU64, AtomicUsize, Ordering};
use std::sync::Mutex;

pub struct Pool {
    pub exe: PathBuf,
    pub workers: usize,
    pub runs: AtomicU64,
    pub restarts: AtomicU64,
    /// runs that did not complete (watchdog, dead executor); after a few of them the batch is
    /// abandoned: something systematic is wrong (e.g. a lock the simulator has no points for)
    pub failed: AtomicU64,
    idle: Mutex<Vec<Proc>>,
}

pub const ABANDON_AFTER: u64 = 4;

struct Proc {
    child: Child,
    stdin: ChildStdin,
    stdout: BufReader<ChildStdout>,
}

impl Proc {
    fn start(exe: &PathBuf) -> std::io::Result<Proc> {
        let mut child = Command::new(exe)
            .env("PAROL_LS_SIM", "1")
            .env_remove("RUST_LOG")
            .env("RUST_BACKTRACE", "0")
            .stdin(Stdio::piped())
            .stdout(Stdio::piped())
            .stderr(Stdio::null())
            .spawn()?;
        let stdin = child.stdin.take().unwrap();
        let stdout = BufReader::new(child.stdout.take().unwrap());
        Ok(Proc {
            child,
            stdin,
            stdout,
        })
    }

    fn exec(&mut self, spec: &Value) -> Result<Value, String> {
        let line = serde_json::to_string(spec).map_err(|e| e.to_string())?;
        self.stdin
            .write_all(line.as_bytes())
            .and_then(|_| self.stdin.write_all(b"\n"))
            .and_then(|_| self.stdin.flush())
            .map_err(|e| format!("write to executor: {e}"))?;
        let mut out = String::new();
        match self.stdout.read_line(&mut out) {
            Ok(0) => Err("executor closed its output".into()),
            Ok(_) => serde_json::from_str(&out).map_err(|e| format!("bad record: {e}")),
            Err(e) => Err(format!("read from executor: {e}")),
        }
    }
}

impl Drop for Proc {
    fn drop(&mut self) {
        let _ = self.child.kill();
        let _ = self.child.wait();
    }
}

impl Pool {
    pub fn new(exe: PathBuf, workers: usize) -> Pool {
        Pool {
            exe,
            workers,
            runs: AtomicU64::new(0),
            restarts: AtomicU64::new(0),
            failed: AtomicU64::new(0),
            idle: Mutex::new(vec![]),
        }
    }

    /// Executes all specs; results in spec order.  A run whose executor died is
    /// returned as `{"harness_error": ...}` (plus whatever record was received).
    pub fn run(&self, specs: &[Value]) -> Vec<Value> {
        let n = specs.len();
        let next = AtomicUsize::new(0);
        let out: Mutex<Vec<Option<Value>>> = Mutex::new((0..n).map(|_| None).collect());
        std::thread::scope(|scope| {
            for _ in 0..self.workers.min(n.max(1)) {
                scope.spawn(|| {
                    let mut proc: Option<Proc> = self.idle.lock().unwrap().pop();
                    loop {
                        let i = next.fetch_add(1, Ordering::SeqCst);
                        if i >= n {
                            if let Some(p) = proc.take() {
                                self.idle.lock().unwrap().push(p);
                            }
                            break;
                        }
                        if self.failed.load(Ordering::Relaxed) >= ABANDON_AFTER {
                            out.lock().unwrap()[i] = Some(json!({"harness_error": "batch abandoned after repeated incomplete runs"}));
                            continue;
                        }
                        if proc.is_none() {
                            match Proc::start(&self.exe) {
                                Ok(p) => proc = Some(p),
                                Err(e) => {
                                    out.lock().unwrap()[i] =
                                        Some(json!({"harness_error": format!("cannot start executor: {e}")}));
                                    continue;
                                }
                            }
                        }
                        self.runs.fetch_add(1, Ordering::Relaxed);
                        let r = proc.as_mut().unwrap().exec(&specs[i]);
                        let rec = match r {
                            Ok(v) => {
                                if v["watchdog"].as_bool() == Some(true) {
                                    self.failed.fetch_add(1, Ordering::Relaxed);
                                }
                                let fatal = false; // the executor forks per run: it survives both
                                if fatal {
                                    proc = None; // the child exits by itself; start a fresh one
                                    self.restarts.fetch_add(1, Ordering::Relaxed);
                                }
                                v
                            }
                            Err(e) => {
                                proc = None;
                                self.failed.fetch_add(1, Ordering::Relaxed);
                                self.restarts.fetch_add(1, Ordering::Relaxed);
                                json!({"harness_error": e})
                            }
                        };
                        out.lock().unwrap()[i] = Some(rec);
                    }
                });
            }
        });
        out.into_inner()
            .unwrap()
            .into_iter()
            .map(|o| o.unwrap_or_else(|| json!({"harness_error": "no result"})))
            .collect()
    }

    pub fn run_one(&self, spec: &Value) -> Value {
        self.run(std::slice::from_ref(spec)).pop().unwrap()
    }
}
