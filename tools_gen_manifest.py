#!/usr/bin/env python3
"""Regenerates /verif/MANIFEST.json (kept in one place so the not_applicable
list and the check entries cannot drift apart)."""
import json, subprocess, sys

NA = {
 "C01": "acceptance = f(tables, token sequence, recovery flag); the LL(k) runtime is a sequential, single-threaded PDA loop with no clock, I/O, fault or history to simulate - a pure function of its input (DESIGN §6)",
 "C02": "tree shape / action order = f(tables, sentence); single-threaded, no schedule or fault involved (DESIGN §6)",
 "C03": "LALR(1) table construction (lalry, BTree-only) and the LR loop are pure functions of the grammar and input (DESIGN §6)",
 "C04": "conflict reporting = f(grammar); pure (DESIGN §6)",
 "C05": "LL(k) decision = f(grammar, K); its only stateful ingredient (the per-k caches) is covered under C06 (DESIGN §6)",
 "C07": "trie/union/minimisation = f(k-tuple sets); hash-order effects on state numbering are C24's business, predictions are order independent (DESIGN §6)",
 "C08": "LookaheadDFA::eval = f(automaton, token buffer); pure (DESIGN §6)",
 "C09": "canonicalisation = f(grammar); a pure rewrite loop (DESIGN §6)",
 "C10": "left factoring = f(grammar) up to the hash-order tie-break, which is decided under C24 (DESIGN §6)",
 "C11": "nullable/productive/reachable/left-recursive sets = f(grammar); HashSets used as sets only (DESIGN §6)",
 "C12": "augmentation = f(grammar); pure (DESIGN §6)",
 "C13": "tokens = f(scanner tables, text): mode switching is internal to the scnr2 iterator and the parser has no path back into the scanner, so there is no consumption schedule to vary (DESIGN §6)",
 "C14": "losslessness = f(text, tables); pure (DESIGN §6)",
 "C15": "comment regex construction and matching = f(delimiters, text); pure (DESIGN §6)",
 "C16": "error-token rule = f(scanner config, text); pure (DESIGN §6)",
 "C17": "skip/comment handling = f(text, tables) in one sequential callback sequence; no interleaving exists (DESIGN §6)",
 "C18": "terminal numbering = f(grammar); pure (DESIGN §6)",
 "C19": "termination/no-panic = f(tables, text, options); an input-space bound with no faults or timers involved (DESIGN §6)",
 "C20": "option independence = f(tables, text) compared across configurations; pure (DESIGN §6)",
 "C21": "rendered tables vs analysis results = f(grammar); pure (DESIGN §6)",
 "C22": "'generated code compiles' = f(grammar, options) judged by rustc; pure (DESIGN §6)",
 "C23": "typed AST vs input = f(grammar, sentence); pure (DESIGN §6)",
 "C25": "render/re-parse round trip = f(grammar); pure (DESIGN §6)",
 "C26": "no-panic over grammar texts; the property does not quantify over I/O faults of the Builder, the only fault surface nearby (DESIGN §6, §9)",
 "C27": "formatter = f(text, options); idempotence is two applications of a pure function (DESIGN §6)",
 "C28": "rename edits = f(text, position, name); hash order only permutes non-overlapping edits (DESIGN §6)",
 "C31": "edit script = f(two sequences); pure dynamic programming (DESIGN §6)",
 "C32": "packed tuple algebra = f(arguments); pure bit manipulation (DESIGN §6)",
 "C33": "identifier generation = f(grammar); pure (DESIGN §6)",
 "C34": "two parsers on the same text; both pure (DESIGN §6)",
}

CHECKS = {
 "C24": dict(
   engine="hash-sim",
   technique="deterministic simulation: the real generator pipeline re-executed under seeded perturbations of the per-thread RandomState (SipHash) keys through a getrandom seam; byte comparison of all generated files against a reference-key run; seeded search over (grammar, options, key) with structural minimisation and exact replay",
   level_text="Seeded exploration: every generated artefact (parser, trait/actions, expanded grammar, node-kind enums, export model, node types) of the real pipeline is compared byte for byte under 10 (quick) / 32 (thorough) perturbed hash-key pairs per (grammar, options), over all 276 repository grammars and hundreds to thousands of generated tie-oriented grammars. A two-way hash-order tie survives n keys with probability 2^-n. Sampling, not proof.",
   level_note="Assumes the RandomState key pair is the only input-independent source of variation (no clock/thread/address dependence was found in the generator; ASLR is not controlled). Trusted: the getrandom interposition seam (self-tested at every start), the no-op rustfmt stub (in-process mode compares unformatted bytes).",
   design_ref="§4"),
 "C06": dict(
   engine="cache-sim",
   technique="deterministic simulation of request histories with slot-eviction faults against the real FirstCache/FollowCache; every answer refined against fresh-cache results and an independent naive fixpoint reference model of FIRST_k/FOLLOW_k; seeded search with minimised replay",
   level_text="Seeded exploration of request/eviction histories over the two per-k caches for repository and generated grammars; each observed answer is compared with the answer of fresh caches (history independence) and with an executable definition (least fixpoint over k-truncated concatenation) for k up to a bound.",
   level_note="Reference model is trusted (60 lines, agrees with parol for k=1..4 on hand-checked grammars); k=0 is checked for history independence only (representation convention of the end marker, DESIGN §5.3).",
   design_ref="§5"),
 "C29": dict(
   engine="LS-sim",
   technique="deterministic simulation: the real parol-ls main loop and its analysis threads under a seeded token-passing scheduler (uniform / PCT / virtual-time strategies) with slow, stalled, fast, overlapping and crashing analyses; final published diagnostics per document checked against a single-edit reference run; delta-debugged replay files",
   level_text="Seeded exploration of edit histories x thread schedules of the real server code (main_loop, Server, analysis threads, lsp_server memory connection); the oracle is the sequential specification 'last diagnostics = diagnostics of the final text alone, tagged with the final version'.",
   level_note="Interleaving is controlled at intercepted points only (message boundary, spawn, thread start/exit, lock, publish) - complete for channel/lock based code, not for bare atomics. Trusted: the cfg(parol_verif) seam (~100 lines), lsp_server::Connection::memory.",
   design_ref="§3"),
 "C30": dict(
   engine="LS-sim",
   technique="deterministic simulation: seeded request/edit/configuration histories against the real parol-ls main loop (dev profile, debug assertions on) under the controlled scheduler; panic monitor and exactly-one-response invariant; minimised replay",
   level_text="Seeded exploration of reachable server states (documents in all text classes incl. CRLF/multi-byte/syntax errors, in-flight analyses, configuration changes) x request kinds x position classes; invariant: no panic, one non-error response per request, main loop ends Ok.",
   level_note="Asserts nothing about response contents. Built in the dev profile (debug assertions and overflow checks on), strictly more sensitive than release.",
   design_ref="§3"),
}

def main(claimed):
    checks = []
    for pid in sorted(claimed):
        c = CHECKS[pid]
        checks.append({
            "property_id": pid,
            "quick_cmd": f"./check {pid} --tier quick",
            "thorough_cmd": f"./check {pid} --tier thorough",
            "evidence_file": f"/verif/evidence/{pid}.json",
            "replay_cmd_template": f"./check {pid} --replay {{path}}",
            "engine": c["engine"],
            "level_claimed": {"category": "exploration", "text": c["level_text"], "design_ref": "DESIGN.md " + c["design_ref"]},
            "level_note": c["level_note"],
            "technique": c["technique"],
        })
    na = [{"property_id": k, "reason": v} for k, v in sorted(NA.items())]
    for pid in sorted(set(CHECKS) - set(claimed)):
        na.append({"property_id": pid, "reason": "simulation target (DESIGN.md %s) - check under construction, not claimed yet" % CHECKS[pid]["design_ref"]})
    na.sort(key=lambda e: e["property_id"])
    hooks_commits = []
    try:
        out = subprocess.run(["git", "-C", "/repo", "log", "--format=%H %s"], capture_output=True, text=True).stdout
        for l in out.splitlines():
            h, s = l.split(" ", 1)
            if s.startswith("verif-hooks:"):
                hooks_commits.append(h)
    except Exception:
        pass
    m = {
        "version": 1,
        "setup_cmd": "./check setup",
        "hooks": {
            "guard": "cfg(parol_verif)",
            "enable": "RUSTFLAGS='--cfg parol_verif' PAROL_LS_VERIF_DRIVER=/verif/ls-sim/driver.rs cargo build --offline --manifest-path /repo/Cargo.toml -p parol-ls --target-dir /verif/target-ls (done by ./check C29|C30); hash-sim and cache-sim need no hook",
            "baseline_off_cmd": "cd /repo && cargo nextest run --workspace --no-fail-fast --test-threads 8 --offline || cargo test --workspace --no-fail-fast --offline",
            "source_commits": hooks_commits,
            "add_only": True,
        },
        "engines": [
            {"name": "hash-sim", "path": "/verif/hash-sim", "serves_properties": ["C24"], "kind_free_text": "in-process deterministic simulation of the generator under controlled RandomState keys (getrandom seam), plus LD_PRELOAD mode for the real parol binary"},
            {"name": "cache-sim", "path": "/verif/cache-sim", "serves_properties": ["C06"], "kind_free_text": "request-history / eviction-fault simulation of FirstCache and FollowCache against a reference model"},
            {"name": "LS-sim", "path": "/verif/ls-sim + /verif/ls-check", "serves_properties": ["C29", "C30"], "kind_free_text": "token-passing deterministic scheduler around the real parol-ls main loop and analysis threads (executor inside the hooked binary, oracle in a separate orchestrator)"},
        ],
        "checks": checks,
        "not_applicable": na,
        "notes": "Technique family: deterministic simulation with fault injection. 30 of 34 properties are pure functions of their input and are listed as not applicable with reasons (DESIGN.md §6). Exit 2 = harness error, never a verdict.",
    }
    json.dump(m, open("/verif/MANIFEST.json", "w"), indent=1)
    print("MANIFEST.json written; claimed:", sorted(claimed))

if __name__ == "__main__":
    main(sys.argv[1:])
