/* Static no-op stand-in for `rustfmt` (hash-sim in-process mode): exits 0 at once. */
void _start(void) {
    __asm__ volatile("mov $60, %eax\n\txor %edi, %edi\n\tsyscall");
    for (;;) {}
}
