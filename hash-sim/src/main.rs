//! hash-sim: the real parol generator under controlled `RandomState` keys (C24).
//! See /verif/DESIGN.md §4.

mod gen;
mod pipeline;
mod seam;

use pipeline::{Opts, Outcome};
use serde_json::{json, Value};
use simcore::{Evidence, Fnv, Rng, Tier};
use std::collections::{BTreeMap, BTreeSet};
use std::io::Write;
use std::os::fd::FromRawFd;
use std::path::{Path, PathBuf};
use std::sync::atomic::{AtomicU64, AtomicUsize, Ordering};
use std::sync::Mutex;

const ENGINE_ID: u64 = 0x4A5;
const PROPERTY: &str = "C24";
const STACK: usize = 64 << 20;
/// reference key pair K0
const K0: (u64, u64) = (0x0123_4567_89AB_CDEF, 0x0F1E_2D3C_4B5A_6978);

static OUT: Mutex<Option<std::fs::File>> = Mutex::new(None);

macro_rules! say {
    ($($arg:tt)*) => {{
        let mut g = OUT.lock().unwrap();
        if let Some(f) = g.as_mut() {
            let _ = writeln!(f, $($arg)*);
        } else {
            println!($($arg)*);
        }
    }};
}

/// parol prints LALR conflict reports and build messages to stdout/stderr:
/// keep our own descriptor and point 1/2 at /dev/null.
fn capture_stdout() {
    unsafe {
        let saved = libc::dup(1);
        let devnull = libc::open(c"/dev/null".as_ptr(), libc::O_WRONLY);
        if saved >= 0 && devnull >= 0 {
            libc::dup2(devnull, 1);
            if std::env::var_os("VERIF_KEEP_STDERR").is_none() {
                libc::dup2(devnull, 2);
            }
            libc::close(devnull);
            *OUT.lock().unwrap() = Some(std::fs::File::from_raw_fd(saved));
        }
    }
}

fn harness_error(msg: &str) -> ! {
    say!("HARNESS-ERROR: {msg}");
    std::process::exit(simcore::EXIT_HARNESS);
}

// ---------------------------------------------------------------------------

#[derive(Clone)]
struct Case {
    id: usize,
    /// "corpus:<file>" or "gen:<n>"
    origin: String,
    text: String,
    opts: Opts,
    gram: Option<gen::Gram>,
    designed_ties: usize,
    keys: Vec<(u64, u64)>,
}

#[derive(serde::Serialize, serde::Deserialize)]
struct CaseResult {
    id: usize,
    reference: String, // outcome class
    detail: String,
    ref_digest: String,
    n_files: usize,
    digests: Vec<String>,
    /// index into keys of the first key whose outcome differs from the reference
    split: Option<usize>,
    diff: Option<(String, String, usize)>,
    runs: usize,
}

/// Scratch output directory of this process: tmpfs when available (file creation and
/// deletion in parallel on the disk file system serialises on its journal), else
/// /verif/scratch.  Removed at exit; nothing in it is needed by a later command.
fn scratch_root() -> PathBuf {
    let base = match std::env::var_os("VERIF_SCRATCH") {
        Some(p) => PathBuf::from(p),
        None => {
            let shm = PathBuf::from("/dev/shm");
            if shm.is_dir() && std::fs::create_dir_all(shm.join("verif-hash-sim")).is_ok() {
                shm.join("verif-hash-sim")
            } else {
                simcore::verif_root().join("scratch").join("hash-sim")
            }
        }
    };
    base.join(std::process::id().to_string())
}

static WORKER_SEQ: AtomicUsize = AtomicUsize::new(0);
thread_local! {
    static WORKER_DIR: std::cell::OnceCell<PathBuf> = const { std::cell::OnceCell::new() };
}

fn worker_dir() -> PathBuf {
    WORKER_DIR.with(|c| {
        c.get_or_init(|| {
            let d = scratch_root().join(format!("w{}", WORKER_SEQ.fetch_add(1, Ordering::SeqCst)));
            std::fs::create_dir_all(&d).expect("create scratch dir");
            d
        })
        .clone()
    })
}

static RUNS: AtomicU64 = AtomicU64::new(0);

/// heartbeat file of a shard process (progress at the granularity of one pipeline run)
static HEARTBEAT: Mutex<Option<PathBuf>> = Mutex::new(None);

fn run_one(text: &str, opts: &Opts, key: (u64, u64)) -> Outcome {
    let n = RUNS.fetch_add(1, Ordering::Relaxed);
    if let Some(p) = HEARTBEAT.lock().unwrap().as_ref() {
        let _ = std::fs::write(p, n.to_string());
    }
    let dir = worker_dir();
    let text = text.to_string();
    let opts = opts.clone();
    match seam::run_with_key(key, STACK, move || pipeline::run_pipeline(&text, &opts, &dir)) {
        Ok(o) => o,
        Err(p) => Outcome {
            class: "panic".into(),
            detail: p,
            files: BTreeMap::new(),
        },
    }
}

fn run_case(c: &Case, stop_at_first: bool) -> CaseResult {
    let progress = std::env::var_os("VERIF_PROGRESS").is_some();
    let t = std::time::Instant::now();
    if progress {
        eprintln!("start {} {} {}", c.id, c.origin, c.opts.short());
    }
    let r = run_case_inner(c, stop_at_first);
    if progress {
        eprintln!("done {} {} {:?}", c.id, c.origin, t.elapsed());
    }
    r
}

fn run_case_inner(c: &Case, stop_at_first: bool) -> CaseResult {
    let reference = run_one(&c.text, &c.opts, K0);
    let mut res = CaseResult {
        id: c.id,
        reference: reference.class.clone(),
        detail: reference.detail.chars().take(200).collect(),
        ref_digest: reference.digest(),
        n_files: reference.files.len(),
        digests: vec![],
        split: None,
        diff: None,
        runs: 1,
    };
    for (i, k) in c.keys.iter().enumerate() {
        let o = run_one(&c.text, &c.opts, *k);
        res.runs += 1;
        res.digests.push(o.digest());
        if res.split.is_none() {
            if let Some(d) = reference.first_diff(&o) {
                res.split = Some(i);
                res.diff = Some(d);
                if stop_at_first {
                    break;
                }
            }
        }
    }
    res
}

/// does (text, opts) produce different outcomes under the two keys?
fn differs(text: &str, opts: &Opts, ka: (u64, u64), kb: (u64, u64)) -> Option<(String, String, usize)> {
    let a = run_one(text, opts, ka);
    let b = run_one(text, opts, kb);
    a.first_diff(&b)
}

// ---------------------------------------------------------------------------
// workload
// ---------------------------------------------------------------------------

fn draw_opts(rng: &mut Rng, thorough: bool) -> Opts {
    Opts {
        max_k: *rng.pick(&[1usize, 2, 3, 3, 4, 5, 5]),
        csharp: if thorough { rng.chance(1, 4) } else { rng.chance(1, 8) },
        minimize_boxed_types: rng.chance(1, 2),
        range: rng.chance(1, 3),
        trim_parse_tree: rng.chance(1, 4),
        disable_recovery: rng.chance(1, 6),
        node_kind_enums: rng.chance(1, 3),
        exports: rng.chance(1, 3),
        custom: rng.chance(1, 4),
    }
}

fn load_corpus() -> Vec<(String, String)> {
    let dir = simcore::verif_root().join("corpus").join("par");
    let mut v = vec![];
    if let Ok(rd) = std::fs::read_dir(&dir) {
        for e in rd.flatten() {
            let name = e.file_name().to_string_lossy().to_string();
            if name.ends_with(".par") {
                if let Ok(t) = std::fs::read_to_string(e.path()) {
                    v.push((name, t));
                }
            }
        }
    }
    v.sort();
    v
}

struct Budget {
    corpus_opts: usize,
    n_mixed: usize,
    n_generated: usize,
    n_keys: usize,
    max_corpus_bytes: usize,
}

fn build_cases(seed: u64, tier: Tier, b: &Budget) -> Vec<Case> {
    let mut cases = vec![];
    let corpus = load_corpus();
    let mut id = 0usize;
    // corpus/heavy.txt: "<file> <quick keys> <thorough keys> <max_k cap>" - grammars whose
    // analysis is expensive get fewer keys / a lookahead cap (a static, deterministic rule).
    let heavy: BTreeMap<String, (usize, usize, usize)> =
        std::fs::read_to_string(simcore::verif_root().join("corpus").join("heavy.txt"))
            .unwrap_or_default()
            .lines()
            .filter(|l| !l.starts_with('#'))
            .filter_map(|l| {
                let p: Vec<&str> = l.split_whitespace().collect();
                Some((p.first()?.to_string(), (p.get(1)?.parse().ok()?, p.get(2)?.parse().ok()?, p.get(3)?.parse().ok()?)))
            })
            .collect();
    for (name, text) in &corpus {
        if text.len() > b.max_corpus_bytes {
            continue;
        }
        let (n_keys, k_cap) = match heavy.get(name) {
            Some((q, t, k)) => (if tier == Tier::Quick { *q } else { *t }, *k),
            None => (b.n_keys, 10),
        };
        if n_keys == 0 {
            continue;
        }
        for o in 0..b.corpus_opts {
            let mut rng = Rng::for_run(seed, ENGINE_ID, id as u64);
            let mut opts = if o == 0 {
                // the CLI defaults
                Opts::default_k(5)
            } else {
                draw_opts(&mut rng, tier == Tier::Thorough)
            };
            opts.max_k = opts.max_k.min(k_cap);
            let keys = (0..n_keys).map(|_| (rng.next_u64(), rng.next_u64())).collect();
            cases.push(Case {
                id,
                origin: format!("corpus:{name}"),
                text: text.clone(),
                opts,
                gram: None,
                designed_ties: 0,
                keys,
            });
            id += 1;
        }
    }
    // (c) repository grammars combined with a generated tie-oriented sub-grammar
    let small: Vec<&(String, String)> = corpus.iter().filter(|(n, t)| t.len() < 2_500 && !heavy.contains_key(n)).collect();
    for n in 0..b.n_mixed {
        let mut rng = Rng::for_run(seed, ENGINE_ID, (2u64 << 32) + n as u64);
        if small.is_empty() {
            break;
        }
        let (name, ctext) = *rng.pick(&small);
        let g = gen::generate(&mut rng);
        let Some(text) = gen::mix_with_corpus(ctext, &g) else { continue };
        let mut opts = draw_opts(&mut rng, tier == Tier::Thorough);
        // the combination can blow the LL(k) analysis up (parol-exp.par + a sub-grammar at k = 4
        // did not finish within 15 minutes): small repository grammars and k <= 3 only
        opts.max_k = opts.max_k.clamp(2, 3);
        let keys = (0..b.n_keys).map(|_| (rng.next_u64(), rng.next_u64())).collect();
        cases.push(Case {
            id,
            origin: format!("mix:{n}:{name}"),
            text,
            opts,
            gram: None,
            designed_ties: g.designed_ties,
            keys,
        });
        id += 1;
    }
    for n in 0..b.n_generated {
        let mut rng = Rng::for_run(seed, ENGINE_ID, (1u64 << 32) + n as u64);
        let g = gen::generate(&mut rng);
        let text = gen::render(&g);
        let mut opts = draw_opts(&mut rng, tier == Tier::Thorough);
        if opts.max_k < 2 {
            opts.max_k = 2;
        }
        let keys = (0..b.n_keys).map(|_| (rng.next_u64(), rng.next_u64())).collect();
        cases.push(Case {
            id,
            origin: format!("gen:{n}"),
            text,
            opts,
            designed_ties: g.designed_ties,
            gram: Some(g),
            keys,
        });
        id += 1;
    }
    cases
}

// ---------------------------------------------------------------------------
// minimisation + replay
// ---------------------------------------------------------------------------

fn minimise(c: &Case, ka: (u64, u64), kb: (u64, u64)) -> (String, Option<gen::Gram>) {
    if let Some(g) = &c.gram {
        let opts = c.opts.clone();
        let small = gen::shrink(
            g,
            |cand| differs(&gen::render(cand), &opts, ka, kb).is_some(),
            1500,
        );
        (gen::render(&small), Some(small))
    } else {
        // line-level ddmin for corpus texts
        let lines: Vec<String> = c.text.lines().map(|l| l.to_string()).collect();
        let opts = c.opts.clone();
        let mut budget = 600usize;
        let small = simcore::ddmin(&lines, |cand| {
            if budget == 0 {
                return false;
            }
            budget -= 1;
            differs(&cand.join("\n"), &opts, ka, kb).is_some()
        });
        (small.join("\n") + "\n", None)
    }
}

fn signature(d: &(String, String, usize)) -> String {
    if d.1.is_empty() {
        format!("outcome-split({})", d.0)
    } else {
        format!("file-differs({})", d.1)
    }
}

fn write_replay(seed: u64, n: u64, c: &Case, text: &str, ka: (u64, u64), kb: (u64, u64)) -> PathBuf {
    let a = run_one(text, &c.opts, ka);
    let b = run_one(text, &c.opts, kb);
    let d = a.first_diff(&b);
    let body = json!({
        "engine": "hash-sim",
        "property": PROPERTY,
        "origin": c.origin,
        "seed": seed.to_string(),
        "grammar": text,
        "original_grammar_fnv": simcore::fnv_hex(c.text.as_bytes()),
        "opts": c.opts,
        "key_a": [ka.0.to_string(), ka.1.to_string()],
        "key_b": [kb.0.to_string(), kb.1.to_string()],
        "signature": d.as_ref().map(signature),
        "first_diff": d.as_ref().map(|d| json!({"what": d.0, "file": d.1, "offset": d.2})),
        "digest_a": a.digest(),
        "digest_b": b.digest(),
        "equivalent_cli": format!(
            "VERIF_HASH_SEED=<key> LD_PRELOAD=/verif/hash-sim/libverif_getrandom.so parol -f g.par -e g-exp.par -p parser.rs -a grammar_trait.rs {}",
            c.opts.cli_args().join(" ")),
    });
    simcore::write_replay(PROPERTY, seed, n, &body).unwrap_or_else(|e| harness_error(&format!("cannot write replay: {e}")))
}

fn parse_key(v: &Value) -> Option<(u64, u64)> {
    let a = v.get(0)?.as_str()?.parse().ok()?;
    let b = v.get(1)?.as_str()?.parse().ok()?;
    Some((a, b))
}

fn replay(path: &Path) -> i32 {
    let v = simcore::read_json(path).unwrap_or_else(|e| harness_error(&e));
    let text = v["grammar"].as_str().unwrap_or_else(|| harness_error("replay: no grammar")).to_string();
    let opts: Opts = serde_json::from_value(v["opts"].clone()).unwrap_or_else(|e| harness_error(&format!("replay opts: {e}")));
    let ka = parse_key(&v["key_a"]).unwrap_or_else(|| harness_error("replay: key_a"));
    let kb = parse_key(&v["key_b"]).unwrap_or_else(|| harness_error("replay: key_b"));
    let a = run_one(&text, &opts, ka);
    let b = run_one(&text, &opts, kb);
    match a.first_diff(&b) {
        Some(d) => {
            let exact = v["digest_a"].as_str() == Some(&a.digest()) && v["digest_b"].as_str() == Some(&b.digest());
            say!(
                "replay: reproduced {} ({}; file={} offset={}); digests {} the recorded ones",
                signature(&d), d.0, d.1, d.2,
                if exact { "match" } else { "DIFFER from" }
            );
            say!("VIOLATION property={PROPERTY} replay={}", path.display());
            simcore::EXIT_VIOLATION
        }
        None => {
            say!("replay: not reproduced - both keys give identical outcome {} ({} files)", a.class, a.files.len());
            simcore::EXIT_OK
        }
    }
}

// ---------------------------------------------------------------------------

fn install_rustfmt_stub() {
    // A static no-op `rustfmt` first on PATH: comparing unformatted bytes is the stricter
    // comparison and saves the cost of the real formatter (DESIGN §4.3).
    let stub = std::env::var_os("VERIF_RUSTFMT_STUB").map(PathBuf::from).unwrap_or_else(|| {
        simcore::verif_root().join("hash-sim").join("stub-bin").join("rustfmt")
    });
    if !stub.exists() {
        harness_error(&format!("rustfmt stub {} missing (run ./check setup)", stub.display()));
    }
    let dir = stub.parent().unwrap().to_path_buf();
    let path = std::env::var_os("PATH").unwrap_or_default();
    let mut parts = vec![dir];
    parts.extend(std::env::split_paths(&path));
    std::env::set_var("PATH", std::env::join_paths(parts).unwrap());
}

fn main() {
    let args: Vec<String> = std::env::args().collect();
    let mut tier = simcore::env_tier();
    let mut replay_file: Option<PathBuf> = None;
    let mut emit_log: Option<PathBuf> = None;
    let mut selfcheck = false;
    let mut only: Option<String> = None;
    let mut shard: Option<(usize, usize, PathBuf)> = None;
    let mut i = 1;
    while i < args.len() {
        match args[i].as_str() {
            "--tier" => {
                i += 1;
                tier = if args.get(i).map(|s| s.as_str()) == Some("thorough") { Tier::Thorough } else { Tier::Quick };
            }
            "--replay" => {
                i += 1;
                replay_file = args.get(i).map(PathBuf::from);
            }
            "--emit-log" => {
                i += 1;
                emit_log = args.get(i).map(PathBuf::from);
            }
            "--selfcheck" => selfcheck = true,
            "--shard" => {
                // worker process: "--shard <i> <n> <result file>"
                let si: usize = args.get(i + 1).and_then(|s| s.parse().ok()).unwrap_or(0);
                let sn: usize = args.get(i + 2).and_then(|s| s.parse().ok()).unwrap_or(1);
                let out = args.get(i + 3).map(PathBuf::from).unwrap_or_default();
                shard = Some((si, sn, out));
                i += 3;
            }
            "--only" => {
                i += 1;
                only = args.get(i).cloned();
            }
            other => {
                eprintln!("unknown argument {other}");
                std::process::exit(simcore::EXIT_HARNESS);
            }
        }
        i += 1;
    }
    capture_stdout();
    std::panic::set_hook(Box::new(|_| {})); // panics of the code under test are outcomes, not noise
    install_rustfmt_stub();
    if let Err(e) = seam::self_test() {
        harness_error(&e);
    }
    let _ = std::fs::remove_dir_all(scratch_root());
    let code = if let Some((si, sn, out)) = shard {
        run_shard(tier, only.as_deref(), si, sn, &out)
    } else if let Some(p) = replay_file {
        replay(&p)
    } else if selfcheck {
        run_selfcheck()
    } else {
        run_batch(tier, emit_log.as_deref(), only.as_deref())
    };
    let _ = std::fs::remove_dir_all(scratch_root());
    std::process::exit(code);
}

/// Worker process: runs the cases with id % n == i sequentially on one thread (plus the
/// per-run key thread).  Multi-threading inside one process scales badly here (every run
/// maps a large stack and spawns `rustfmt`: address-space lock contention), processes scale
/// linearly.
fn run_shard(tier: Tier, only: Option<&str>, si: usize, sn: usize, out: &Path) -> i32 {
    let seed = simcore::env_seed();
    let budget = budget_for(tier);
    let mut cases = build_cases(seed, tier, &budget);
    if let Some(o) = only {
        cases.retain(|c| c.origin == o || c.origin.strip_prefix("corpus:") == Some(o));
    }
    *HEARTBEAT.lock().unwrap() = Some(out.with_extension("hb"));
    let mut f = std::io::BufWriter::new(std::fs::File::create(out).unwrap_or_else(|e| harness_error(&format!("shard output: {e}"))));
    // interleave cheap and expensive cases: position in the list, not the id, decides the shard
    for (pos, c) in cases.iter().enumerate() {
        if pos % sn != si {
            continue;
        }
        let r = run_case(c, true);
        let _ = writeln!(f, "{}", serde_json::to_string(&r).unwrap());
    }
    let _ = writeln!(
        f,
        "{{\"shard_done\":{si},\"runs\":{},\"keys\":{},\"spawns\":{}}}",
        RUNS.load(Ordering::Relaxed),
        seam::KEYS_SERVED.load(Ordering::Relaxed),
        seam::SPAWNS_STUBBED.load(Ordering::Relaxed)
    );
    let _ = f.flush();
    simcore::EXIT_OK
}

fn run_sharded(tier: Tier, only: Option<&str>, n_cases: usize, workers: usize) -> Vec<CaseResult> {
    let exe = std::env::current_exe().unwrap();
    let dir = scratch_root().join("shards");
    std::fs::create_dir_all(&dir).unwrap();
    let n = workers.min(n_cases.max(1));
    let mut children = vec![];
    for i in 0..n {
        let out = dir.join(format!("shard-{i}.jsonl"));
        let mut cmd = std::process::Command::new(&exe);
        cmd.args(["--tier", tier.as_str(), "--shard", &i.to_string(), &n.to_string()])
            .arg(&out)
            .stdout(std::process::Stdio::null());
        if let Some(o) = only {
            cmd.args(["--only", o]);
        }
        match cmd.spawn() {
            Ok(c) => children.push((c, out)),
            Err(e) => harness_error(&format!("cannot start shard {i}: {e}")),
        }
    }
    let mut results: Vec<CaseResult> = vec![];
    // progress watchdog: a shard whose result file has not grown for STALL seconds is stuck in one
    // pipeline run (the generator does not terminate on some grammar): kill everything, exit 2
    let stall = std::time::Duration::from_secs(
        std::env::var("VERIF_C24_STALL").ok().and_then(|s| s.parse().ok()).unwrap_or(900),
    );
    let mut last_progress: Vec<(u64, std::time::Instant)> = children.iter().map(|_| (0, std::time::Instant::now())).collect();
    loop {
        let mut all_done = true;
        let mut stuck: Option<usize> = None;
        for (i, (c, out)) in children.iter_mut().enumerate() {
            if let Ok(None) = c.try_wait() {
                all_done = false;
                // progress = the shard's heartbeat (one tick per pipeline run), not finished cases:
                // a heavy case with 33 runs may legitimately take many minutes on a loaded machine
                let len = std::fs::read_to_string(out.with_extension("hb")).ok().and_then(|t| t.trim().parse::<u64>().ok()).unwrap_or(0)
                    + std::fs::metadata(&*out).map(|m| m.len()).unwrap_or(0);
                if len != last_progress[i].0 {
                    last_progress[i] = (len, std::time::Instant::now());
                } else if last_progress[i].1.elapsed() > stall {
                    stuck = Some(i);
                }
            }
        }
        if let Some(i) = stuck {
            let done_lines = std::fs::read_to_string(&children[i].1).map(|t| t.lines().count()).unwrap_or(0);
            for (c, _) in children.iter_mut() {
                let _ = c.kill();
                let _ = c.wait();
            }
            harness_error(&format!(
                "shard {i} made no progress for {} s after {done_lines} cases: a single pipeline run does not terminate (not a C24 verdict). Re-run with VERIF_PROGRESS=1 VERIF_KEEP_STDERR=1 VERIF_WORKERS=1 to see the case",
                stall.as_secs()
            ));
        }
        if all_done {
            break;
        }
        std::thread::sleep(std::time::Duration::from_millis(200));
    }
    for (mut c, out) in children {
        let st = c.wait();
        if !matches!(st, Ok(s) if s.success()) {
            harness_error(&format!("shard process failed: {st:?}"));
        }
        let text = std::fs::read_to_string(&out).unwrap_or_default();
        let mut done = false;
        for l in text.lines() {
            if l.starts_with("{\"shard_done\"") {
                done = true;
                if let Ok(v) = serde_json::from_str::<Value>(l) {
                    RUNS.fetch_add(v["runs"].as_u64().unwrap_or(0), Ordering::Relaxed);
                    seam::KEYS_SERVED.fetch_add(v["keys"].as_u64().unwrap_or(0), Ordering::Relaxed);
                    seam::SPAWNS_STUBBED.fetch_add(v["spawns"].as_u64().unwrap_or(0), Ordering::Relaxed);
                }
                continue;
            }
            match serde_json::from_str::<CaseResult>(l) {
                Ok(r) => results.push(r),
                Err(e) => harness_error(&format!("bad shard line: {e}")),
            }
        }
        if !done {
            harness_error("shard output incomplete");
        }
    }
    results.sort_by_key(|r| r.id);
    if results.len() != n_cases {
        harness_error(&format!("expected {n_cases} case results, got {}", results.len()));
    }
    results
}

fn budget_for(tier: Tier) -> Budget {
    let scale: f64 = std::env::var("VERIF_SCALE").ok().and_then(|s| s.parse().ok()).unwrap_or(1.0);
    match tier {
        Tier::Quick => Budget {
            corpus_opts: 2,
            n_mixed: (100.0 * scale) as usize,
            n_generated: (500.0 * scale) as usize,
            n_keys: 10,
            max_corpus_bytes: 60_000,
        },
        Tier::Thorough => Budget {
            corpus_opts: 3,
            n_mixed: (1500.0 * scale) as usize,
            n_generated: (6000.0 * scale) as usize,
            n_keys: 32,
            max_corpus_bytes: 400_000,
        },
    }
}

fn run_batch(tier: Tier, emit_log: Option<&Path>, only: Option<&str>) -> i32 {
    let t0 = std::time::Instant::now();
    let seed = simcore::env_seed();
    let workers = simcore::env_workers();
    let budget = budget_for(tier);
    let mut cases = build_cases(seed, tier, &budget);
    if let Some(o) = only {
        cases.retain(|c| c.origin == o || c.origin.strip_prefix("corpus:") == Some(o));
        if std::env::var_os("VERIF_PRINT").is_some() {
            for c in &cases {
                say!("--- {} {}\n{}", c.origin, c.opts.short(), c.text);
            }
        }
    }
    say!(
        "hash-sim: property={PROPERTY} tier={} seed={seed} cases={} keys/case={} workers={workers}",
        tier.as_str(),
        cases.len(),
        budget.n_keys
    );
    let results: Vec<CaseResult> = run_sharded(tier, only, cases.len(), workers);

    // event log + hash (determinism: same spec => same hash in any process at any worker count)
    let mut log = Fnv::new();
    let mut log_lines = vec![];
    for (c, r) in cases.iter().zip(results.iter()) {
        let line = format!(
            "{} {} {} {} ref={} {} files={} keys={} split={:?}",
            c.id,
            c.origin,
            simcore::fnv_hex(c.text.as_bytes()),
            c.opts.short(),
            r.reference,
            r.ref_digest,
            r.n_files,
            r.digests.join(","),
            r.split
        );
        log.write_str(&line);
        log_lines.push(line);
    }
    if let Some(p) = emit_log {
        let _ = std::fs::write(p, log_lines.join("\n") + "\n");
    }

    // statistics
    let mut evaluations = 0u64;
    let mut classes: BTreeMap<String, u64> = BTreeMap::new();
    let mut nontrivial: BTreeSet<String> = BTreeSet::new();
    let mut tie_grammars: BTreeSet<String> = BTreeSet::new();
    let mut samples = vec![];
    for (c, r) in cases.iter().zip(results.iter()) {
        evaluations += (r.runs - 1) as u64;
        *classes.entry(r.reference.clone()).or_default() += 1;
        if r.reference == "ok" && r.n_files >= 3 && r.runs >= 3 {
            nontrivial.insert(simcore::fnv_hex(c.text.as_bytes()));
            if c.designed_ties > 0 {
                tie_grammars.insert(simcore::fnv_hex(c.text.as_bytes()));
            }
        }
    }
    let mut panic_infos = 0;
    for (c, r) in cases.iter().zip(results.iter()) {
        if r.reference == "panic" && panic_infos < 12 {
            panic_infos += 1;
            say!("INFO: generator panicked (same under every key; C26's business, no C24 verdict): {} opts={} :: {}", c.origin, c.opts.short(), r.detail.replace('\n', " "));
        }
    }
    for c in cases.iter().filter(|c| c.gram.is_some()).take(2) {
        samples.push(json!({"origin": c.origin, "opts": c.opts.short(), "keys": c.keys.len() + 1, "grammar": c.text}));
    }
    if let Some(c) = cases.iter().find(|c| c.gram.is_none()) {
        samples.push(json!({"origin": c.origin, "opts": c.opts.short(), "keys": c.keys.len() + 1,
            "grammar_fnv": simcore::fnv_hex(c.text.as_bytes()), "bytes": c.text.len()}));
    }

    // violations
    let known = simcore::load_known_findings(PROPERTY);
    let mut violations = 0u64;
    let mut known_seen: BTreeMap<String, u64> = BTreeMap::new();
    let mut reported = 0u64;
    let mut seen_sigs: BTreeSet<String> = BTreeSet::new();
    let split_cases: Vec<(&Case, &CaseResult)> = cases
        .iter()
        .zip(results.iter())
        .filter(|(_, r)| r.split.is_some())
        .collect();
    let dry = emit_log.is_some(); // self-check children: no replays, no evidence
    for (c, r) in &split_cases {
        if dry {
            violations += 1;
            continue;
        }
        let kb = c.keys[r.split.unwrap()];
        let d = r.diff.clone().unwrap();
        let sig = signature(&d);
        let origin_key = format!("{}|{}", c.origin, simcore::fnv_hex(c.text.as_bytes()));
        if let Some(k) = known.iter().find(|k| k.status == "open" && (k.key == origin_key || k.key == c.origin)) {
            *known_seen.entry(format!("{} {}", k.class, k.key)).or_default() += 1;
            continue;
        }
        violations += 1;
        // report at most 4 minimised replays, one per (signature, origin kind)
        let dedup = format!("{sig}|{}", c.origin.split(':').next().unwrap_or(""));
        if reported < 4 && seen_sigs.insert(dedup) {
            let (text, _) = minimise(c, K0, kb);
            let path = write_replay(seed, reported, c, &text, K0, kb);
            say!(
                "violation: {} opts={} {} ({}; file={} offset={}) minimised to {} bytes",
                c.origin, c.opts.short(), sig, d.0, d.1, d.2, text.len()
            );
            say!("VIOLATION property={PROPERTY} replay={}", path.display());
            reported += 1;
        }
    }
    if violations > 0 && reported == 0 && !dry {
        // all signatures duplicated: still report the first
        let (c, r) = split_cases.iter().find(|(c, _)| {
            let origin_key = format!("{}|{}", c.origin, simcore::fnv_hex(c.text.as_bytes()));
            !known.iter().any(|k| k.status == "open" && (k.key == origin_key || k.key == c.origin))
        }).unwrap();
        let kb = c.keys[r.split.unwrap()];
        let (text, _) = minimise(c, K0, kb);
        let path = write_replay(seed, 0, c, &text, K0, kb);
        say!("VIOLATION property={PROPERTY} replay={}", path.display());
    }
    for (k, n) in &known_seen {
        say!("KNOWN-FINDING: property={PROPERTY} {k} (seen {n}x)");
    }

    // process-level cross-check (thorough tier, or when VERIF_PROC_CASES is set)
    let proc_cases: usize = std::env::var("VERIF_PROC_CASES").ok().and_then(|s| s.parse().ok()).unwrap_or(if tier == Tier::Thorough { 150 } else { 0 });
    let mut proc_stats = (0u64, 0u64);
    if proc_cases > 0 && !dry {
        let (pr, pc, pv) = run_proc_mode(&cases, proc_cases, 3, workers);
        proc_stats = (pr, pc);
        for (n, (ci, detail)) in pv.iter().enumerate() {
            violations += 1;
            if n < 2 {
                let c = &cases[*ci];
                let body = json!({
                    "engine": "hash-sim", "mode": "process", "property": PROPERTY, "origin": c.origin,
                    "grammar": c.text, "opts": c.opts, "detail": detail,
                    "signature": "process-level-split",
                    "key_a": [K0.0.to_string(), K0.1.to_string()], "key_b": [c.keys[0].0.to_string(), c.keys[0].1.to_string()],
                    "note": "found by the LD_PRELOAD cross-check with the real parol binary and real rustfmt; --replay re-runs the in-process comparison on the same grammar and options",
                });
                let path = simcore::write_replay(PROPERTY, seed, 100 + n as u64, &body).unwrap_or_else(|e| harness_error(&format!("cannot write replay: {e}")));
                say!("violation: {} opts={} {}", c.origin, c.opts.short(), detail);
                say!("VIOLATION property={PROPERTY} replay={}", path.display());
            }
        }
        say!("hash-sim: process-level cross-check: {} parol processes, {} accepted grammars compared under 3 hash seeds each, {} differing", pr, pc, pv.len());
    }

    let wall = t0.elapsed().as_secs_f64();
    let runs = RUNS.load(Ordering::Relaxed);
    let mut ev = Evidence::new(PROPERTY, tier, seed);
    ev.evaluations = evaluations;
    ev.distinct_nontrivial = nontrivial.len() as u64;
    ev.rule = "one evaluation = the complete output of the real generator pipeline (parser, trait/actions, expanded grammar, optional node-kind enums, export model, node types) for one (grammar, options) under one perturbed RandomState key pair, compared byte for byte with the output under the reference key pair K0. Grammars: every .par file of the repository snapshot plus seeded tie-oriented generated grammars. distinct_nontrivial = distinct grammar texts that were accepted (outcome ok, >= 3 output files) and compared under >= 2 perturbed keys.".into();
    ev.samples = samples;
    ev.violations = violations;
    ev.wall_s = wall;
    ev.set("runs", json!(runs));
    ev.set("runs_per_hour", json!((runs as f64 / wall.max(0.001) * 3600.0) as u64));
    ev.set("cases", json!(cases.len()));
    ev.set("keys_per_case", json!(budget.n_keys + 1));
    ev.set("reference_outcome_classes", json!(classes));
    ev.set("accepted_grammars_with_designed_tie", json!(tie_grammars.len()));
    ev.set("faults_fired", json!({"hash_key_perturbation": evaluations, "seam_keys_served": seam::KEYS_SERVED.load(Ordering::Relaxed), "rustfmt_spawns_answered_by_simulator": seam::SPAWNS_STUBBED.load(Ordering::Relaxed)}));
    ev.set("event_log_hash", json!(log.hex()));
    ev.set("process_level_cross_check", json!({"parol_processes": proc_stats.0, "accepted_grammars_compared": proc_stats.1, "hash_seeds_per_grammar": 3, "real_rustfmt": true}));
    ev.set("workers", json!(workers));
    ev.set("split_cases", json!(split_cases.len()));
    ev.set("known_findings_seen", json!(known_seen));
    ev.set("real_components", json!(["crates/parol (parser, transformation, analysis, generators, Builder) via path dependency on /repo", "std::collections::HashMap/HashSet/RandomState"]));
    ev.set("stubbed_components", json!(["rustfmt (static no-op binary first on PATH)", "OS entropy for RandomState keys (getrandom seam)"]));
    ev.set("sim_time_ms", json!(0));
    ev.assumptions = vec![
        "the only input-independent source of variation in the generator is the RandomState key pair (no clock, thread or address dependence); ASLR is not controlled".into(),
        "std draws the per-thread keys through the interposable getrandom symbol (self-tested at start-up of every run)".into(),
    ];
    if !dry {
        if let Err(e) = ev.write() {
            harness_error(&format!("cannot write evidence: {e}"));
        }
    }
    say!(
        "hash-sim: {} cases, {} pipeline runs in {:.1}s ({:.0}/s), accepted grammars compared: {}, with designed ties: {}, splits: {}, log={}",
        cases.len(), runs, wall, runs as f64 / wall.max(0.001), nontrivial.len(), tie_grammars.len(), split_cases.len(), log.hex()
    );
    if violations > 0 {
        simcore::EXIT_VIOLATION
    } else {
        say!("OK property={PROPERTY} held on everything explored");
        simcore::EXIT_OK
    }
}

/// Process-level cross-check (the property's literal wording): the real `parol` binary built
/// from /repo, one process per run, real `rustfmt`, `RandomState` keys injected through the
/// LD_PRELOAD shim.  Returns (process runs, grammars compared, violations as (case index, text, detail)).
fn run_proc_mode(cases: &[Case], max_cases: usize, n_seeds: u64, workers: usize) -> (u64, u64, Vec<(usize, String)>) {
    let Some(bin) = std::env::var_os("VERIF_PAROL_BIN").map(PathBuf::from).filter(|p| p.exists()) else {
        say!("INFO: process-level cross-check skipped (VERIF_PAROL_BIN not set)");
        return (0, 0, vec![]);
    };
    let shim = simcore::verif_root().join("hash-sim").join("libverif_getrandom.so");
    if !shim.exists() {
        say!("INFO: process-level cross-check skipped ({} missing)", shim.display());
        return (0, 0, vec![]);
    }
    // the real rustfmt: PATH without our stub directory
    let stub_dir = simcore::verif_root().join("hash-sim").join("stub-bin");
    let real_path = std::env::join_paths(
        std::env::split_paths(&std::env::var_os("PATH").unwrap_or_default()).filter(|p| *p != stub_dir),
    )
    .unwrap();
    // every second case, Rust back end only, small grammars first
    let picked: Vec<usize> = (0..cases.len())
        .filter(|i| !cases[*i].opts.csharp && cases[*i].text.len() < 20_000)
        .step_by(2)
        .take(max_cases)
        .collect();
    let results: Vec<(u64, bool, Option<String>)> = simcore::par_map(picked.len(), workers, 256 << 10, |j| {
        let c = &cases[picked[j]];
        let base = scratch_root().join(format!("proc-{j}"));
        let mut runs = 0u64;
        let mut reference: Option<(bool, BTreeMap<String, Vec<u8>>)> = None;
        let mut finding = None;
        for s in 0..n_seeds {
            let dir = base.join(format!("s{s}"));
            let _ = std::fs::create_dir_all(&dir);
            let _ = std::fs::write(dir.join("g.par"), &c.text);
            let mut cmd = std::process::Command::new(&bin);
            cmd.current_dir(&dir)
                .args(["-f", "g.par", "-e", "g-exp.par", "-p", "parser.rs", "-a", "grammar_trait.rs", "-q"])
                .args(c.opts.cli_args())
                .env("LD_PRELOAD", &shim)
                .env("VERIF_HASH_SEED", format!("{},{}", simcore::mix(&[c.id as u64, s, 1]), simcore::mix(&[c.id as u64, s, 2])))
                .env("PATH", &real_path)
                .env_remove("RUST_LOG")
                .stdout(std::process::Stdio::null())
                .stderr(std::process::Stdio::null());
            let ok = matches!(cmd.status(), Ok(st) if st.success());
            runs += 1;
            let mut files = BTreeMap::new();
            if let Ok(rd) = std::fs::read_dir(&dir) {
                for e in rd.flatten() {
                    let n = e.file_name().to_string_lossy().to_string();
                    if n != "g.par" {
                        files.insert(n, std::fs::read(e.path()).unwrap_or_default());
                    }
                }
            }
            match &reference {
                None => reference = Some((ok, files)),
                Some((rok, rfiles)) => {
                    if *rok != ok || *rfiles != files {
                        let which = rfiles
                            .iter()
                            .find(|(n, b)| files.get(*n) != Some(*b))
                            .map(|(n, _)| n.clone())
                            .unwrap_or_else(|| "<file set / exit status>".into());
                        finding = Some(format!("process runs under hash seeds 0 and {s} differ in {which}"));
                        break;
                    }
                }
            }
        }
        let accepted = reference.as_ref().map(|r| r.0 && r.1.len() >= 3).unwrap_or(false);
        let _ = std::fs::remove_dir_all(&base);
        (runs, accepted, finding)
    });
    let mut runs = 0;
    let mut compared = 0;
    let mut v = vec![];
    for (j, (r, acc, f)) in results.into_iter().enumerate() {
        runs += r;
        if acc {
            compared += 1;
        }
        if let Some(f) = f {
            v.push((picked[j], f));
        }
    }
    (runs, compared, v)
}

/// Determinism proof: the same reduced batch in two fresh processes at different worker
/// counts must give identical event logs.
fn run_selfcheck() -> i32 {
    let exe = std::env::current_exe().unwrap();
    let dir = scratch_root();
    std::fs::create_dir_all(&dir).unwrap();
    let mut logs = vec![];
    for (n, workers) in [(0, "16"), (1, "3")] {
        let log = dir.join(format!("selfcheck-{n}.log"));
        let st = std::process::Command::new(&exe)
            .args(["--tier", "quick", "--emit-log"])
            .arg(&log)
            .env("VERIF_WORKERS", workers)
            .env("VERIF_SCALE", "0.5")
            .stdout(std::process::Stdio::null())
            .status();
        match st {
            Ok(s) if s.code() == Some(0) || s.code() == Some(1) => {}
            other => harness_error(&format!("selfcheck child failed: {other:?}")),
        }
        logs.push(std::fs::read_to_string(&log).unwrap_or_default());
    }
    if logs[0].is_empty() || logs[0] != logs[1] {
        say!("HARNESS-ERROR: determinism self-check failed: event logs differ between worker counts");
        return simcore::EXIT_HARNESS;
    }
    say!("selfcheck: {} event-log lines identical across two processes (16 vs 3 workers)", logs[0].lines().count());
    simcore::EXIT_OK
}
