//! The hash-seed seam (DESIGN §4.2).
//!
//! `std` obtains the SipHash keys of `RandomState` once per thread through the
//! weak libc symbol `getrandom` ("to allow interposition").  This binary
//! defines that symbol.  A simulated run executes on a fresh thread whose
//! thread-local says which 16 key bytes to return; every other request falls
//! through to the real system call.

use std::cell::Cell;
use std::sync::atomic::{AtomicU64, Ordering};

thread_local! {
    static KEY: Cell<Option<[u8; 16]>> = const { Cell::new(None) };
}

/// number of times the seam actually served a key (probe counter)
pub static KEYS_SERVED: AtomicU64 = AtomicU64::new(0);

const GRND_INSECURE: libc::c_uint = 0x0004;

/// # Safety
/// Called by libc / std with a valid buffer of `len` bytes.
#[no_mangle]
pub unsafe extern "C" fn getrandom(
    buf: *mut libc::c_void,
    len: libc::size_t,
    flags: libc::c_uint,
) -> libc::ssize_t {
    if len == 16 && (flags & GRND_INSECURE) != 0 {
        // `try_with`: the thread-local may already be gone during thread teardown
        if let Ok(Some(k)) = KEY.try_with(|k| k.get()) {
            std::ptr::copy_nonoverlapping(k.as_ptr(), buf as *mut u8, 16);
            KEYS_SERVED.fetch_add(1, Ordering::Relaxed);
            return 16;
        }
    }
    libc::syscall(libc::SYS_getrandom, buf, len, flags) as libc::ssize_t
}

pub fn key_bytes(k: (u64, u64)) -> [u8; 16] {
    let mut b = [0u8; 16];
    b[..8].copy_from_slice(&k.0.to_le_bytes());
    b[8..].copy_from_slice(&k.1.to_le_bytes());
    b
}

/// Runs `f` on a fresh OS thread whose `RandomState` keys are `key`.
/// A panic inside `f` is reported as `Err(message)`.
pub fn run_with_key<T: Send + 'static>(
    key: (u64, u64),
    stack: usize,
    f: impl FnOnce() -> T + Send + 'static,
) -> Result<T, String> {
    let h = std::thread::Builder::new()
        .name("sim-run".into())
        .stack_size(stack)
        .spawn(move || {
            KEY.with(|k| k.set(Some(key_bytes(key))));
            // Force the thread's RandomState keys to be drawn now, from our key.
            let probe = std::collections::hash_map::RandomState::new();
            let _ = &probe;
            f()
        })
        .expect("spawn sim-run thread");
    match h.join() {
        Ok(v) => Ok(v),
        Err(p) => Err(if let Some(s) = p.downcast_ref::<&str>() {
            s.to_string()
        } else if let Some(s) = p.downcast_ref::<String>() {
            s.clone()
        } else {
            "<non-string panic>".to_string()
        }),
    }
}

/// Self-test of the seam: the iteration order of a HashSet must be a function
/// of the key (same key ⇒ same order; some two keys ⇒ different order).
pub fn self_test() -> Result<(), String> {
    fn order(key: (u64, u64)) -> Vec<u32> {
        run_with_key(key, 1 << 20, || {
            let s: std::collections::HashSet<u32> = (0..64).collect();
            s.into_iter().collect::<Vec<_>>()
        })
        .unwrap()
    }
    let a1 = order((1, 1));
    let a2 = order((1, 1));
    if a1 != a2 {
        return Err("hash seam: same key gave different iteration orders".into());
    }
    let mut differs = false;
    for k in 2..6u64 {
        if order((k, k)) != a1 {
            differs = true;
        }
    }
    if !differs {
        return Err("hash seam: different keys never changed the iteration order (seam not effective)".into());
    }
    Ok(())
}

// ---------------------------------------------------------------------------
// Process-spawn seam: `parol::try_format` runs `rustfmt <file>` after writing each Rust
// file.  Process creation is serialised machine-wide in this sandbox (~0.9 ms each, no
// parallel speed-up), so inside a simulated run the spawn of a program called "rustfmt"
// is answered by the simulator itself: "a formatter that ran and changed nothing".
// Everything else is passed to libc.  Comparing the *unformatted* bytes is the stricter
// comparison (DESIGN §4.3).
// ---------------------------------------------------------------------------

pub static SPAWNS_STUBBED: AtomicU64 = AtomicU64::new(0);
const FAKE_PID: libc::pid_t = 0x7fff_ff00;

type SpawnFn = unsafe extern "C" fn(
    *mut libc::pid_t,
    *const libc::c_char,
    *const libc::posix_spawn_file_actions_t,
    *const libc::posix_spawnattr_t,
    *const *mut libc::c_char,
    *const *mut libc::c_char,
) -> libc::c_int;
type WaitFn = unsafe extern "C" fn(libc::pid_t, *mut libc::c_int, libc::c_int) -> libc::pid_t;

/// # Safety
/// libc contract of posix_spawnp.
#[no_mangle]
pub unsafe extern "C" fn posix_spawnp(
    pid: *mut libc::pid_t,
    file: *const libc::c_char,
    file_actions: *const libc::posix_spawn_file_actions_t,
    attrp: *const libc::posix_spawnattr_t,
    argv: *const *mut libc::c_char,
    envp: *const *mut libc::c_char,
) -> libc::c_int {
    if !file.is_null()
        && std::ffi::CStr::from_ptr(file).to_bytes() == b"rustfmt"
        && matches!(KEY.try_with(|k| k.get()), Ok(Some(_)))
        && std::env::var_os("VERIF_REAL_RUSTFMT").is_none()
    {
        if !pid.is_null() {
            *pid = FAKE_PID;
        }
        SPAWNS_STUBBED.fetch_add(1, Ordering::Relaxed);
        return 0;
    }
    let real = libc::dlsym(libc::RTLD_NEXT, c"posix_spawnp".as_ptr());
    if real.is_null() {
        return libc::ENOSYS;
    }
    let real: SpawnFn = std::mem::transmute(real);
    real(pid, file, file_actions, attrp, argv, envp)
}

/// # Safety
/// libc contract of waitpid.
#[no_mangle]
pub unsafe extern "C" fn waitpid(
    pid: libc::pid_t,
    status: *mut libc::c_int,
    options: libc::c_int,
) -> libc::pid_t {
    if pid == FAKE_PID {
        if !status.is_null() {
            *status = 0; // exited with code 0
        }
        return pid;
    }
    let real = libc::dlsym(libc::RTLD_NEXT, c"waitpid".as_ptr());
    if real.is_null() {
        *libc::__errno_location() = libc::ENOSYS;
        return -1;
    }
    let real: WaitFn = std::mem::transmute(real);
    real(pid, status, options)
}
