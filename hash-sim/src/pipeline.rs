//! One run of the real generator pipeline, exactly as `parol`'s `main.rs`
//! drives it, into a private scratch directory (DESIGN §4.3).

use parol::build::Builder;
use serde::{Deserialize, Serialize};
use std::collections::BTreeMap;
use std::path::Path;

#[derive(Clone, Debug, Serialize, Deserialize, PartialEq, Eq, Hash, PartialOrd, Ord)]
pub struct Opts {
    pub max_k: usize,
    pub csharp: bool,
    pub minimize_boxed_types: bool,
    pub range: bool,
    pub trim_parse_tree: bool,
    pub disable_recovery: bool,
    pub node_kind_enums: bool,
    /// also produce the `parol export` JSON model and the node-types export
    pub exports: bool,
    /// the remaining command line options that reach the generated text: `-t`, `-m`,
    /// `--inner-attributes`, `--add-derives`, `--max-parsing-depth`
    #[serde(default)]
    pub custom: bool,
}

impl Opts {
    pub fn default_k(max_k: usize) -> Self {
        Opts {
            max_k,
            csharp: false,
            minimize_boxed_types: false,
            range: false,
            trim_parse_tree: false,
            disable_recovery: false,
            node_kind_enums: false,
            exports: true,
            custom: false,
        }
    }

    pub fn short(&self) -> String {
        format!(
            "k{}{}{}{}{}{}{}{}{}",
            self.max_k,
            if self.csharp { ",cs" } else { "" },
            if self.minimize_boxed_types { ",minbox" } else { "" },
            if self.range { ",range" } else { "" },
            if self.trim_parse_tree { ",trim" } else { "" },
            if self.disable_recovery { ",norec" } else { "" },
            if self.node_kind_enums { ",nk" } else { "" },
            if self.exports { ",exp" } else { "" },
            if self.custom { ",custom" } else { "" },
        )
    }

    /// command line of the real `parol` binary that corresponds to these options
    pub fn cli_args(&self) -> Vec<String> {
        let mut a = vec!["-k".to_string(), self.max_k.to_string()];
        if self.csharp {
            a.push("-l".into());
            a.push("c-sharp".into());
        }
        if self.minimize_boxed_types {
            a.push("-b".into());
        }
        if self.range {
            a.push("--range".into());
        }
        if self.trim_parse_tree {
            a.push("--trim".into());
        }
        if self.disable_recovery {
            a.push("--disable-recovery".into());
        }
        if self.custom {
            for x in ["-t", "SimGrammar", "-m", "sim_grammar", "--inner-attributes", "allow-too-many-arguments",
                      "--add-derives", "PartialEq,Eq", "--max-parsing-depth", "77"] {
                a.push(x.into());
            }
        }
        // the two further files the command line can write (listener in `run_generator`)
        for x in ["-i", "g-internal.txt", "-u", "g-untransformed.par"] {
            a.push(x.into());
        }
        a
    }
}

/// Result of one pipeline run: outcome class + every file left behind.
#[derive(Clone, Debug, PartialEq, Eq)]
pub struct Outcome {
    /// "ok", "err:<stage>", "panic"
    pub class: String,
    /// error / panic text (NOT compared - error messages are not generated files)
    pub detail: String,
    pub files: BTreeMap<String, Vec<u8>>,
}

impl Outcome {
    pub fn digest(&self) -> String {
        let mut f = simcore::Fnv::new();
        f.write_str(&self.class);
        for (n, b) in &self.files {
            f.write_str(n);
            f.write_u64(b.len() as u64);
            f.write(b);
        }
        f.hex()
    }

    /// First difference to `other`: (what, file, byte offset)
    pub fn first_diff(&self, other: &Outcome) -> Option<(String, String, usize)> {
        if self.class != other.class {
            return Some((
                format!("outcome {} vs {}", self.class, other.class),
                String::new(),
                0,
            ));
        }
        for (n, b) in &self.files {
            match other.files.get(n) {
                None => return Some(("file missing under second key".into(), n.clone(), 0)),
                Some(o) if o != b => {
                    let off = b
                        .iter()
                        .zip(o.iter())
                        .position(|(x, y)| x != y)
                        .unwrap_or(b.len().min(o.len()));
                    return Some(("content differs".into(), n.clone(), off));
                }
                _ => {}
            }
        }
        for n in other.files.keys() {
            if !self.files.contains_key(n) {
                return Some(("file missing under first key".into(), n.clone(), 0));
            }
        }
        None
    }
}

fn clear_dir(dir: &Path) {
    if let Ok(rd) = std::fs::read_dir(dir) {
        for e in rd.flatten() {
            let p = e.path();
            if p.is_dir() {
                let _ = std::fs::remove_dir_all(&p);
            } else {
                let _ = std::fs::remove_file(&p);
            }
        }
    }
}

fn collect_files(dir: &Path) -> BTreeMap<String, Vec<u8>> {
    let mut m = BTreeMap::new();
    if let Ok(rd) = std::fs::read_dir(dir) {
        for e in rd.flatten() {
            let name = e.file_name().to_string_lossy().to_string();
            if name == "g.par" {
                continue;
            }
            if let Ok(b) = std::fs::read(e.path()) {
                // `-i` echoes the grammar file's path as given (token locations).  In-process the
                // path is this worker's private scratch directory - an input that differs between
                // worker processes, not an output: reduce it to the relative name the command
                // line run uses, so that event logs do not depend on the worker that ran a case.
                let b = if name == "g-internal.txt" {
                    let prefix = format!("{}/", dir.display());
                    String::from_utf8_lossy(&b).replace(&prefix, "").into_bytes()
                } else {
                    b
                };
                m.insert(name, b);
            }
        }
    }
    m
}

/// Runs the generator on `text` with `opts`, output into `dir` (emptied first
/// and afterwards).  Must be called on the thread that carries the hash key.
pub fn run_pipeline(text: &str, opts: &Opts, dir: &Path) -> Outcome {
    clear_dir(dir);
    let _ = std::fs::create_dir_all(dir);
    let grammar_file = dir.join("g.par");
    std::fs::write(&grammar_file, text).expect("write grammar to scratch dir");

    let mut node_infos: Option<String> = None;
    let (class, detail) = run_generator(&grammar_file, opts, dir, &mut node_infos);
    let mut files = collect_files(dir);
    if let Some(n) = node_infos {
        files.insert("node-types.json".into(), n.into_bytes());
    }

    if opts.exports && class == "ok" {
        // `parol export`: same calls as crates/parol/src/bin/parol/tools/export.rs
        match parol::obtain_grammar_config(&grammar_file, false).and_then(|gc| {
            parol::generate_parser_export_model_from_grammar(&gc, opts.max_k)
        }) {
            Ok(model) => {
                let json = serde_json::to_string_pretty(&model).unwrap_or_default();
                files.insert("export-model.json".into(), json.into_bytes());
            }
            Err(e) => {
                files.insert(
                    "export-model.json".into(),
                    // the class of failure is part of the observable, the text is not
                    b"<export failed>".to_vec(),
                );
                let _ = e;
            }
        }
    }
    clear_dir(dir);
    Outcome {
        class,
        detail,
        files,
    }
}

/// What `parol`'s own `CLIListener` does for `-i` and `-u` (crates/parol/src/bin/parol/main.rs):
/// the parsed grammar's `Display` text and the untransformed grammar rendered as PAR text are
/// generated files as well.
struct FileListener<'a> {
    dir: &'a Path,
}

impl parol::build::BuildListener for FileListener<'_> {
    fn on_initial_grammar_parse(
        &mut self,
        _syntax_tree: &parol::parol_runtime::ParseTree,
        _input: &str,
        grammar: &parol::ParolGrammar,
    ) -> parol::parol_runtime::Result<()> {
        if std::env::var_os("VERIF_C24_NO_INTERNAL").is_none() {
            let _ = std::fs::write(self.dir.join("g-internal.txt"), format!("{grammar}"));
        }
        Ok(())
    }

    fn on_intermediate_grammar(
        &mut self,
        stage: parol::build::IntermediateGrammar,
        config: &parol::GrammarConfig,
    ) -> parol::parol_runtime::Result<()> {
        if stage == parol::build::IntermediateGrammar::Untransformed && std::env::var_os("VERIF_C24_NO_UNTRANSFORMED").is_none() {
            if let Ok(t) = parol::render_par_string(config, true) {
                let _ = std::fs::write(self.dir.join("g-untransformed.par"), t);
            }
        }
        Ok(())
    }
}

fn run_generator(
    grammar_file: &Path,
    opts: &Opts,
    dir: &Path,
    node_infos: &mut Option<String>,
) -> (String, String) {
    let mut builder = Builder::with_explicit_output_dir(dir);
    builder.disable_output_sanity_checks();
    builder.set_cargo_integration(false);
    builder.grammar_file(grammar_file);
    if let Err(e) = builder.max_lookahead(opts.max_k) {
        return ("err:config".into(), e.to_string());
    }
    let ext = if opts.csharp { "cs" } else { "rs" };
    builder.parser_output_file(format!("parser.{ext}"));
    builder.actions_output_file(format!("grammar_trait.{ext}"));
    builder.expanded_grammar_output_file("g-exp.par");
    if opts.node_kind_enums && !opts.csharp {
        builder.node_kind_enums_output_file("node_kind.rs");
        builder.node_kind_enums();
    }
    if opts.trim_parse_tree {
        builder.trim_parse_tree();
    }
    if opts.disable_recovery {
        builder.disable_recovery();
    }
    if opts.minimize_boxed_types {
        builder.minimize_boxed_types();
    }
    if opts.range {
        builder.range();
    }
    if opts.csharp {
        builder.language(parol::Language::CSharp);
    }
    if opts.custom {
        builder.user_type_name("SimGrammar");
        builder.user_trait_module_name("sim_grammar");
        builder.inner_attributes(vec![parol::InnerAttributes::AllowTooManyArguments]);
        builder.add_derives(vec!["PartialEq".to_string(), "Eq".to_string()]);
        builder.max_parsing_depth(77);
    }
    let mut listener = FileListener { dir };
    let mut generator = match builder.begin_generation_with(Some(&mut listener)) {
        Ok(g) => g,
        Err(e) => return ("err:config".into(), e.to_string()),
    };
    if let Err(e) = generator.parse() {
        return ("err:parse".into(), format!("{e:?}"));
    }
    if let Err(e) = generator.expand() {
        return ("err:expand".into(), format!("{e:?}"));
    }
    if let Err(e) = generator.post_process() {
        return ("err:post_process".into(), format!("{e:?}"));
    }
    if let Err(e) = generator.write_output() {
        return ("err:write_output".into(), format!("{e:?}"));
    }
    if opts.exports {
        // node-types export (`generate_parser_and_export_node_infos`): the public entry
        // point re-runs the whole pipeline on a fresh generator.
        let mut g2 = match builder.begin_generation_with(None) {
            Ok(g) => g,
            Err(e) => return ("err:config".into(), e.to_string()),
        };
        match g2.generate_parser_and_export_node_infos() {
            Ok(info) => {
                *node_infos = Some(serde_json::to_string_pretty(&info).unwrap_or_default());
            }
            Err(e) => return ("err:export_node_infos".into(), format!("{e:?}")),
        }
    }
    ("ok".into(), String::new())
}
