//! Seeded grammar generator aimed at *tie* situations (DESIGN §4.4 b) and a
//! structural shrinker for the grammars it produces.
//!
//! Every alternative starts with a terminal (or is empty), so no generated
//! grammar is left-recursive; the first alternative of every rule refers only
//! to later rules, so every rule is productive; rule i+1 is always referenced
//! from rule i, so every rule is reachable.  Alternatives of one alternation
//! are arranged in prefix groups of equal size, nested, so that left factoring
//! meets ties at several depths.

use serde::{Deserialize, Serialize};
use simcore::Rng;

#[derive(Clone, Debug, Serialize, Deserialize, PartialEq, Eq)]
pub enum Sym {
    /// index into Gram::terminals
    T(usize),
    /// index into Gram::rules
    N(usize),
    Opt(Vec<Alt>),
    Rep(Vec<Alt>),
    Grp(Vec<Alt>),
    /// a terminal or non-terminal with an AST-control suffix (index into ATTRS)
    Attr(Box<Sym>, u8),
}

/// AST-control suffixes: cut operator, member names (incl. a clashing pair), user types
pub const ATTRS: [&str; 6] = ["^", "@m0", "@m1", ": UT0", "@m0: UT1", "@val"];

pub type Alt = Vec<Sym>;

#[derive(Clone, Debug, Serialize, Deserialize, PartialEq, Eq)]
pub struct Rule {
    pub name: String,
    pub alts: Vec<Alt>,
}

#[derive(Clone, Debug, Serialize, Deserialize, PartialEq, Eq)]
pub struct Term {
    /// 0 = "string", 1 = 'raw string', 2 = /regex/
    #[serde(default)]
    pub kind: u8,
    /// lookahead suffix: (positive?, text)
    #[serde(default)]
    pub lookahead: Option<(bool, String)>,
    pub text: String,
    /// scanner states (indices into Gram::scanners; empty = INITIAL only, unannotated)
    pub states: Vec<usize>,
}

#[derive(Clone, Debug, Serialize, Deserialize, PartialEq, Eq)]
pub struct Scanner {
    /// wrapper rule indices listed in a %skip directive of this scanner state
    #[serde(default)]
    pub skip: Vec<usize>,
    pub name: String,
    /// (terminal-wrapper rule index, "enter"/"push"/"pop", target scanner index or usize::MAX for INITIAL)
    pub transitions: Vec<(usize, String, usize)>,
}

#[derive(Clone, Debug, Serialize, Deserialize, PartialEq, Eq)]
pub struct Gram {
    /// extra declarations (%user_type, %nt_type, %t_type, comments)
    #[serde(default)]
    pub decls: Vec<String>,
    pub lalr: bool,
    pub rules: Vec<Rule>,
    pub terminals: Vec<Term>,
    /// extra scanner states besides INITIAL
    pub scanners: Vec<Scanner>,
    /// transitions declared for INITIAL
    pub initial_transitions: Vec<(usize, String, usize)>,
    /// wrapper rule indices listed in a %skip directive of INITIAL
    #[serde(default)]
    pub initial_skip: Vec<usize>,
    /// number of alternations that were built with >= 2 prefix groups of equal size
    pub designed_ties: usize,
}

struct Ctx<'a> {
    rng: &'a mut Rng,
    n_rules: usize,
    terminals: Vec<Term>,
    pool: Vec<usize>,
    ties: usize,
    budget: i32,
}

impl Ctx<'_> {
    fn fresh_t(&mut self) -> usize {
        let i = self.terminals.len();
        self.terminals.push(Term {
            kind: 0,
            lookahead: None,
            text: format!("t{i}"),
            states: vec![],
        });
        i
    }
    fn pool_t(&mut self) -> usize {
        if self.pool.is_empty() || self.rng.chance(1, 6) && self.pool.len() < 8 {
            let t = self.fresh_t();
            self.pool.push(t);
            t
        } else {
            *self.rng.pick(&self.pool)
        }
    }

    /// A tail that follows a distinguishing fresh terminal.
    /// `rule`: index of the enclosing rule; `base`: only forward references allowed.
    fn tail(&mut self, rule: usize, base: bool, depth: usize) -> Alt {
        let mut v = vec![];
        let n = self.rng.below(3);
        for _ in 0..n {
            self.budget -= 1;
            let kind = if depth >= 2 || self.budget < 0 {
                self.rng.below(2)
            } else {
                self.rng.below(6)
            };
            match kind {
                0 => v.push(Sym::T(self.pool_t())),
                1 => {
                    // non-terminal reference
                    if base {
                        if rule + 1 < self.n_rules {
                            let j = self.rng.range(rule as u64 + 1, self.n_rules as u64 - 1);
                            v.push(Sym::N(j as usize));
                        } else {
                            v.push(Sym::T(self.pool_t()));
                        }
                    } else {
                        v.push(Sym::N(self.rng.usize_below(self.n_rules)));
                    }
                }
                2 => v.push(Sym::Opt(self.alternation(rule, base, depth + 1, false))),
                3 => v.push(Sym::Rep(self.alternation(rule, base, depth + 1, false))),
                4 => v.push(Sym::Grp(self.alternation(rule, base, depth + 1, false))),
                _ => v.push(Sym::T(self.pool_t())),
            }
        }
        v
    }

    /// One alternation list with designed prefix groups.
    fn alternation(&mut self, rule: usize, base: bool, depth: usize, top: bool) -> Vec<Alt> {
        let mut alts: Vec<Alt> = vec![];
        // number of prefix groups and members per group
        let shape = self.rng.below(10);
        let (groups, members): (usize, Vec<usize>) = match shape {
            0..=3 => {
                // tie: g groups of the same size m
                let g = self.rng.range(2, 3) as usize;
                let m = self.rng.range(2, 3) as usize;
                (g, vec![m; g])
            }
            4..=5 => {
                // partial tie: two largest equal, one smaller
                (3, vec![2, 2, 1])
            }
            6 => (2, vec![3, 2]),
            7 => (1, vec![self.rng.range(2, 3) as usize]),
            _ => (self.rng.range(1, 3) as usize, vec![1, 1, 1]),
        };
        let tie = {
            let mx = members.iter().take(groups).max().copied().unwrap_or(0);
            mx >= 2 && members.iter().take(groups).filter(|m| **m == mx).count() >= 2
        };
        if tie {
            self.ties += 1;
        }
        for g in 0..groups {
            // group prefix: a fresh distinguishing terminal followed by 0..2 pool terminals
            let mut prefix: Alt = vec![Sym::T(self.fresh_t())];
            for _ in 0..self.rng.below(3) {
                prefix.push(Sym::T(self.pool_t()));
            }
            let m = members[g];
            // second level: with some probability the members again fall into two tied sub groups
            let nested = m >= 2 && depth < 2 && self.rng.chance(1, 3);
            if nested {
                self.ties += 1;
                for _sub in 0..2 {
                    let mut p2 = prefix.clone();
                    p2.push(Sym::T(self.fresh_t()));
                    for _ in 0..self.rng.below(2) {
                        p2.push(Sym::T(self.pool_t()));
                    }
                    for _ in 0..2 {
                        let mut a = p2.clone();
                        a.push(Sym::T(self.fresh_t()));
                        a.extend(self.tail(rule, base, depth + 1));
                        alts.push(a);
                    }
                }
            } else {
                for _ in 0..m {
                    let mut a = prefix.clone();
                    if m > 1 {
                        a.push(Sym::T(self.fresh_t()));
                    }
                    a.extend(self.tail(rule, base, depth));
                    alts.push(a);
                }
            }
        }
        if top && !base && self.rng.chance(1, 8) {
            alts.push(vec![]); // an epsilon alternative
        }
        self.rng.shuffle(&mut alts);
        alts
    }
}

pub fn generate(rng: &mut Rng) -> Gram {
    let n_rules = rng.range(1, 5) as usize;
    let lalr = rng.chance(1, 5);
    let mut ctx = Ctx {
        rng,
        n_rules,
        terminals: vec![],
        pool: vec![],
        ties: 0,
        budget: 14,
    };
    let mut rules = vec![];
    for i in 0..n_rules {
        // base alternation: forward references only (productive), forced link to rule i+1
        let mut alts = ctx.alternation(i, true, 0, true);
        if i + 1 < n_rules {
            let k = ctx.rng.usize_below(alts.len());
            alts[k].push(Sym::N(i + 1));
        }
        // with some probability add free alternatives (may refer to any rule -> recursion)
        if ctx.rng.chance(1, 2) {
            let extra = ctx.alternation(i, false, 0, true);
            alts.extend(extra);
            ctx.rng.shuffle(&mut alts);
        }
        rules.push(Rule {
            name: format!("N{i}"),
            alts,
        });
    }
    let ties = ctx.ties;
    let mut terminals = std::mem::take(&mut ctx.terminals);
    let rng = ctx.rng;
    // terminal kinds and lookahead expressions (a fifth of the grammars)
    if rng.chance(1, 5) {
        for t in terminals.iter_mut() {
            if rng.chance(1, 4) {
                t.kind = rng.range(1, 2) as u8;
            }
            if rng.chance(1, 8) {
                t.lookahead = Some((rng.chance(1, 2), format!("la{}", rng.below(3))));
            }
        }
    }

    // scanner states: wrapper rules `Wk: "tk";` for transitions
    let mut scanners = vec![];
    let mut initial_transitions = vec![];
    let mut initial_skip: Vec<usize> = vec![];
    if rng.chance(1, 3) && !terminals.is_empty() {
        let n_sc = rng.range(1, 2) as usize;
        for s in 0..n_sc {
            scanners.push(Scanner {
                skip: vec![],
                name: format!("Sc{s}"),
                transitions: vec![],
            });
        }
        // a handful of wrapper rules over existing terminals
        let n_wr = rng.range(1, 4) as usize;
        let mut wrappers = vec![];
        for _ in 0..n_wr {
            let t = rng.usize_below(terminals.len());
            let idx = rules.len();
            rules.push(Rule {
                name: format!("W{idx}"),
                alts: vec![vec![Sym::T(t)]],
            });
            // make it reachable: append to a random alternative of a random earlier rule
            let r = rng.usize_below(n_rules);
            let a = rng.usize_below(rules[r].alts.len());
            if !rules[r].alts[a].is_empty() {
                rules[r].alts[a].push(Sym::N(idx));
            } else {
                rules[r].alts.push(vec![Sym::T(t), Sym::N(idx)]);
            }
            // the wrapped terminal is valid in all scanner states
            terminals[t].states = (0..n_sc).collect();
            terminals[t].states.push(usize::MAX);
            wrappers.push(idx);
        }
        for w in &wrappers {
            let kinds = ["enter", "push", "pop"];
            // INITIAL
            if rng.chance(2, 3) {
                let k = kinds[rng.usize_below(2)];
                initial_transitions.push((*w, k.to_string(), rng.usize_below(n_sc)));
            }
            for s in 0..n_sc {
                if rng.chance(2, 3) {
                    let k = kinds[rng.usize_below(3)];
                    let target = if rng.chance(1, 2) {
                        usize::MAX
                    } else {
                        rng.usize_below(n_sc)
                    };
                    scanners[s].transitions.push((*w, k.to_string(), target));
                }
            }
        }
        // %skip lists (two or more tokens) for INITIAL and the scanner states
        if wrappers.len() >= 2 {
            let pick_list = |rng: &mut Rng| -> Vec<usize> {
                let mut w = wrappers.clone();
                rng.shuffle(&mut w);
                w.truncate(rng.range(2, 3).min(w.len() as u64) as usize);
                w
            };
            if rng.chance(1, 3) {
                initial_skip = pick_list(rng);
            }
            for sc in scanners.iter_mut() {
                if rng.chance(1, 3) {
                    sc.skip = pick_list(rng);
                }
            }
        }
        // some more terminals become multi-state
        for t in terminals.iter_mut() {
            if t.states.is_empty() && rng.chance(1, 4) {
                t.states = vec![usize::MAX, rng.usize_below(n_sc)];
            }
        }
    }

    // AST control, user types and clash-prone names (type generation, name generation)
    let mut decls = vec![];
    if rng.chance(1, 2) {
        fn decorate(rng: &mut Rng, alts: &mut Vec<Alt>, used: &mut bool) {
            for a in alts.iter_mut() {
                for s in a.iter_mut() {
                    match s {
                        Sym::T(_) | Sym::N(_) => {
                            if rng.chance(1, 6) {
                                let inner = s.clone();
                                let code = rng.below(ATTRS.len() as u64) as u8;
                                // user types on non-terminals only
                                let code = if matches!(inner, Sym::T(_)) && (code == 3 || code == 4) { 0 } else { code };
                                if code == 3 || code == 4 {
                                    *used = true;
                                }
                                *s = Sym::Attr(Box::new(inner), code);
                            }
                        }
                        Sym::Opt(x) | Sym::Rep(x) | Sym::Grp(x) => decorate(rng, x, used),
                        Sym::Attr(..) => {}
                    }
                }
            }
        }
        let mut used = false;
        for r in rules.iter_mut().take(n_rules) {
            decorate(rng, &mut r.alts, &mut used);
        }
        if used || rng.chance(1, 3) {
            decls.push("%user_type UT0 = crate::ut::UT0".to_string());
            decls.push("%user_type UT1 = crate::ut::UT1".to_string());
        }
        if rng.chance(1, 3) && n_rules > 1 {
            let i = 1 + rng.usize_below(n_rules - 1);
            decls.push(format!("%nt_type {} = crate::nt::T{}", rules[i].name, i));
        }
        if rng.chance(1, 5) {
            decls.push("%t_type crate::tt::Tok".to_string());
        }
    }
    if rng.chance(1, 3) {
        decls.push("%line_comment \"//\"".to_string());
    }
    if rng.chance(1, 3) && n_rules > 1 {
        // names that collide with the helper names parol generates for rule N0 / N1
        let clash = ["N0Opt", "N0List", "N0Group", "N0Suffix", "N1Suffix", "N0Opt0", "N0Suffix0", "N1List"];
        let mut free: Vec<&str> = clash.to_vec();
        let n = rng.range(1, 2) as usize;
        for _ in 0..n {
            let i = 1 + rng.usize_below(n_rules - 1);
            if rules[i].name.starts_with('N') && rules[i].name.len() <= 3 && !free.is_empty() {
                let k = rng.usize_below(free.len());
                let new_name = free.remove(k).to_string();
                for d in decls.iter_mut() {
                    if d.starts_with(&format!("%nt_type {} ", rules[i].name)) {
                        *d = d.replacen(&rules[i].name, &new_name, 1);
                    }
                }
                rules[i].name = new_name;
            }
        }
    }

    Gram {
        decls,
        lalr,
        rules,
        terminals,
        scanners,
        initial_transitions,
        initial_skip,
        designed_ties: ties,
    }
}

fn render_alts(g: &Gram, alts: &[Alt], out: &mut String) {
    for (i, a) in alts.iter().enumerate() {
        if i > 0 {
            out.push_str(" | ");
        }
        render_alt(g, a, out);
    }
}

fn render_alt(g: &Gram, a: &Alt, out: &mut String) {
    for (i, s) in a.iter().enumerate() {
        if i > 0 {
            out.push(' ');
        }
        match s {
            Sym::T(t) => {
                let term = &g.terminals[*t];
                if !term.states.is_empty() && !g.scanners.is_empty() {
                    let names: Vec<String> = term
                        .states
                        .iter()
                        .filter_map(|s| {
                            if *s == usize::MAX {
                                Some("INITIAL".to_string())
                            } else {
                                g.scanners.get(*s).map(|s| s.name.clone())
                            }
                        })
                        .collect();
                    if !names.is_empty() {
                        out.push_str(&format!("<{}>", names.join(", ")));
                    }
                }
                match term.kind {
                    1 => out.push_str(&format!("'{}'", term.text)),
                    2 => out.push_str(&format!("/{}/", term.text)),
                    _ => out.push_str(&format!("\"{}\"", term.text)),
                }
                if let Some((pos, la)) = &term.lookahead {
                    out.push_str(&format!(" {} \"{}\"", if *pos { "?=" } else { "?!" }, la));
                }
            }
            Sym::N(n) => out.push_str(&g.rules[*n].name),
            Sym::Attr(inner, code) => {
                render_alt(g, &vec![(**inner).clone()], out);
                out.push_str(ATTRS[*code as usize % ATTRS.len()]);
            }
            Sym::Opt(a) => {
                out.push_str("[ ");
                render_alts(g, a, out);
                out.push_str(" ]");
            }
            Sym::Rep(a) => {
                out.push_str("{ ");
                render_alts(g, a, out);
                out.push_str(" }");
            }
            Sym::Grp(a) => {
                out.push_str("( ");
                render_alts(g, a, out);
                out.push_str(" )");
            }
        }
    }
}

fn render_transitions(g: &Gram, tr: &[(usize, String, usize)], indent: &str, out: &mut String) {
    for (w, kind, target) in tr {
        let Some(rule) = g.rules.get(*w) else { continue };
        if kind == "pop" {
            out.push_str(&format!("{indent}%on {} %pop\n", rule.name));
        } else {
            let tname = if *target == usize::MAX {
                "INITIAL".to_string()
            } else {
                match g.scanners.get(*target) {
                    Some(s) => s.name.clone(),
                    None => "INITIAL".to_string(),
                }
            };
            out.push_str(&format!("{indent}%on {} %{} {}\n", rule.name, kind, tname));
        }
    }
}

pub fn render(g: &Gram) -> String {
    let mut out = String::new();
    out.push_str(&format!("%start {}\n%title \"generated\"\n", g.rules[0].name));
    if g.lalr {
        out.push_str("%grammar_type 'lalr(1)'\n");
    }
    for d in &g.decls {
        out.push_str(d);
        out.push('\n');
    }
    let skip_line = |sk: &Vec<usize>, indent: &str| -> String {
        let names: Vec<String> = sk.iter().filter_map(|i| g.rules.get(*i).map(|r| r.name.clone())).collect();
        if names.len() >= 1 { format!("{indent}%skip {}\n", names.join(", ")) } else { String::new() }
    };
    out.push_str(&skip_line(&g.initial_skip, ""));
    render_transitions(g, &g.initial_transitions, "", &mut out);
    for s in &g.scanners {
        out.push_str(&format!("%scanner {} {{\n", s.name));
        out.push_str(&skip_line(&s.skip, "    "));
        render_transitions(g, &s.transitions, "    ", &mut out);
        out.push_str("}\n");
    }
    out.push_str("\n%%\n\n");
    for r in &g.rules {
        out.push_str(&format!("{}: ", r.name));
        render_alts(g, &r.alts, &mut out);
        out.push_str(";\n");
    }
    out
}

// ---------------------------------------------------------------------------
// Structural shrinking
// ---------------------------------------------------------------------------

fn strip_rule_refs(alts: &mut Vec<Alt>, removed: usize) {
    for a in alts.iter_mut() {
        a.retain(|s| match s {
            Sym::N(n) => *n != removed,
            Sym::Attr(inner, _) => !matches!(**inner, Sym::N(n) if n == removed),
            _ => true,
        });
        for s in a.iter_mut() {
            match s {
                Sym::N(n) if *n > removed => *n -= 1,
                Sym::Attr(inner, _) => {
                    if let Sym::N(n) = &mut **inner {
                        if *n > removed {
                            *n -= 1;
                        }
                    }
                }
                Sym::Opt(x) | Sym::Rep(x) | Sym::Grp(x) => strip_rule_refs(x, removed),
                _ => {}
            }
        }
        // drop EBNF constructs that became empty
        a.retain(|s| match s {
            Sym::Opt(x) | Sym::Rep(x) | Sym::Grp(x) => x.iter().any(|a| !a.is_empty()),
            _ => true,
        });
    }
}

fn remove_rule(g: &Gram, idx: usize) -> Option<Gram> {
    if idx == 0 || g.rules.len() <= 1 {
        return None;
    }
    let mut h = g.clone();
    let removed_name = h.rules[idx].name.clone();
    h.decls.retain(|d| !d.starts_with(&format!("%nt_type {removed_name} ")));
    h.rules.remove(idx);
    for r in h.rules.iter_mut() {
        strip_rule_refs(&mut r.alts, idx);
    }
    let fix = |tr: &mut Vec<(usize, String, usize)>| {
        tr.retain(|t| t.0 != idx);
        for t in tr.iter_mut() {
            if t.0 > idx {
                t.0 -= 1;
            }
        }
    };
    fix(&mut h.initial_transitions);
    let fix_skip = |sk: &mut Vec<usize>| {
        sk.retain(|i| *i != idx);
        for i in sk.iter_mut() {
            if *i > idx {
                *i -= 1;
            }
        }
    };
    fix_skip(&mut h.initial_skip);
    for s in h.scanners.iter_mut() {
        fix(&mut s.transitions);
        fix_skip(&mut s.skip);
    }
    Some(h)
}

/// Paths address alternation lists inside a rule: a sequence of (alt index, symbol index)
/// steps into nested Opt/Rep/Grp.
fn alts_at<'a>(alts: &'a mut Vec<Alt>, path: &[(usize, usize)]) -> Option<&'a mut Vec<Alt>> {
    let mut cur = alts;
    for (a, s) in path {
        let sym = cur.get_mut(*a)?.get_mut(*s)?;
        cur = match sym {
            Sym::Opt(x) | Sym::Rep(x) | Sym::Grp(x) => x,
            _ => return None,
        };
    }
    Some(cur)
}

fn collect_paths(alts: &[Alt], prefix: &mut Vec<(usize, usize)>, out: &mut Vec<Vec<(usize, usize)>>) {
    out.push(prefix.clone());
    for (ai, a) in alts.iter().enumerate() {
        for (si, s) in a.iter().enumerate() {
            if let Sym::Opt(x) | Sym::Rep(x) | Sym::Grp(x) = s {
                prefix.push((ai, si));
                collect_paths(x, prefix, out);
                prefix.pop();
            }
        }
    }
}

/// All single-step reductions of `g`, simplest-first.
pub fn reductions(g: &Gram) -> Vec<Gram> {
    let mut out = vec![];
    // drop scanner machinery
    if !g.scanners.is_empty() || !g.initial_transitions.is_empty() || !g.initial_skip.is_empty() {
        let mut h = g.clone();
        h.scanners.clear();
        h.initial_transitions.clear();
        h.initial_skip.clear();
        for t in h.terminals.iter_mut() {
            t.states.clear();
        }
        out.push(h);
    }
    // plain string terminals without lookahead
    if g.terminals.iter().any(|t| t.kind != 0 || t.lookahead.is_some()) {
        let mut h = g.clone();
        for t in h.terminals.iter_mut() {
            t.kind = 0;
            t.lookahead = None;
        }
        out.push(h);
    }
    // drop declarations
    for i in 0..g.decls.len() {
        let mut h = g.clone();
        h.decls.remove(i);
        out.push(h);
    }
    // drop whole rules
    for i in (1..g.rules.len()).rev() {
        if let Some(h) = remove_rule(g, i) {
            out.push(h);
        }
    }
    for (ri, r) in g.rules.iter().enumerate() {
        let mut paths = vec![];
        collect_paths(&r.alts, &mut vec![], &mut paths);
        for p in &paths {
            let mut probe = g.clone();
            let Some(list) = alts_at(&mut probe.rules[ri].alts, p) else { continue };
            let n_alts = list.len();
            // remove an alternative
            if n_alts > 1 {
                for ai in 0..n_alts {
                    let mut h = g.clone();
                    alts_at(&mut h.rules[ri].alts, p).unwrap().remove(ai);
                    out.push(h);
                }
            }
            // remove / flatten a symbol
            for ai in 0..n_alts {
                let len = list[ai].len();
                for si in 0..len {
                    let mut h = g.clone();
                    let l = alts_at(&mut h.rules[ri].alts, p).unwrap();
                    let sym = l[ai].remove(si);
                    if p.is_empty() || !l[ai].is_empty() {
                        out.push(h.clone());
                    }
                    if let Sym::Attr(inner, _) = &sym {
                        // keep the symbol, drop the suffix
                        let mut h2 = g.clone();
                        let l2 = alts_at(&mut h2.rules[ri].alts, p).unwrap();
                        l2[ai][si] = (**inner).clone();
                        out.push(h2);
                    }
                    if let Sym::Opt(x) | Sym::Rep(x) | Sym::Grp(x) = sym {
                        // inline the first alternative
                        if let Some(first) = x.first() {
                            let mut h2 = g.clone();
                            let l2 = alts_at(&mut h2.rules[ri].alts, p).unwrap();
                            let mut na = l2[ai][..si].to_vec();
                            na.extend(first.iter().cloned());
                            na.extend(l2[ai][si + 1..].iter().cloned());
                            l2[ai] = na;
                            out.push(h2);
                        }
                    }
                }
            }
        }
    }
    if g.lalr {
        let mut h = g.clone();
        h.lalr = false;
        out.push(h);
    }
    out
}

/// Greedy structural shrinking: apply single reductions while `fails` holds.
pub fn shrink(g: &Gram, mut fails: impl FnMut(&Gram) -> bool, max_steps: usize) -> Gram {
    let mut cur = g.clone();
    let mut steps = 0;
    'outer: loop {
        for cand in reductions(&cur) {
            steps += 1;
            if steps > max_steps {
                break 'outer;
            }
            if cand.rules.is_empty() || cand.rules[0].alts.is_empty() {
                continue;
            }
            if fails(&cand) {
                cur = cand;
                continue 'outer;
            }
        }
        break;
    }
    cur
}

/// Workload (c): a repository grammar combined with a generated tie-oriented sub-grammar.
/// The start symbol becomes `VerifMixStart: <old start> | "verif_mix" VmN0;` and the generated
/// rules (renamed with the prefix `Vm`, INITIAL scanner only, no declarations) are appended.
pub fn mix_with_corpus(corpus_text: &str, g: &Gram) -> Option<String> {
    let at = corpus_text.find("%start")?;
    let rest = &corpus_text[at + 6..];
    let ws = rest.len() - rest.trim_start().len();
    let ident: String = rest[ws..].chars().take_while(|c| c.is_alphanumeric() || *c == '_').collect();
    if ident.is_empty() || !corpus_text.contains("%%") {
        return None;
    }
    let mut h = g.clone();
    h.decls.clear();
    h.scanners.clear();
    h.initial_transitions.clear();
    h.initial_skip.clear();
    h.lalr = false;
    for t in h.terminals.iter_mut() {
        t.states.clear();
        t.text = format!("vm_{}", t.text);
    }
    for r in h.rules.iter_mut() {
        r.name = format!("Vm{}", r.name);
    }
    let rendered = render(&h);
    let rules = rendered.split("%%\n\n").nth(1)?.to_string();
    let mut out = String::new();
    out.push_str(&corpus_text[..at]);
    out.push_str("%start VerifMixStart");
    out.push_str(&rest[ws + ident.len()..]);
    if !out.ends_with('\n') {
        out.push('\n');
    }
    out.push_str(&format!("\nVerifMixStart: {ident} | \"verif_mix\" {};\n", h.rules[0].name));
    out.push_str(&rules);
    Some(out)
}
