/* LD_PRELOAD seam for the real `parol` binary (DESIGN §4.2, process level):
 * the 16-byte GRND_INSECURE request std makes for its RandomState keys is
 * answered from VERIF_HASH_SEED; everything else goes to the kernel. */
#define _GNU_SOURCE
#include <stdlib.h>
#include <string.h>
#include <sys/types.h>
#include <unistd.h>
#include <sys/syscall.h>

ssize_t getrandom(void *buf, size_t len, unsigned int flags) {
    const char *s = getenv("VERIF_HASH_SEED");
    if (s && len == 16 && (flags & 0x4)) {
        unsigned long long a = strtoull(s, 0, 10), b = a * 0x9E3779B97F4A7C15ULL + 1;
        const char *c = strchr(s, ',');
        if (c) b = strtoull(c + 1, 0, 10);
        memcpy(buf, &a, 8);
        memcpy((char *)buf + 8, &b, 8);
        return 16;
    }
    return syscall(SYS_getrandom, buf, len, flags);
}
