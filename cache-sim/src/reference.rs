//! Executable definition of FIRST_k / FOLLOW_k used as the reference model (DESIGN §5.3).
//!
//! Deliberately naive: sets of terminal strings (`BTreeSet<Vec<u16>>`), least fixpoint by
//! Kleene iteration from the empty sets, k-truncated concatenation.  The empty vector is
//! epsilon.  The end-of-input marker (terminal index 0) is in FOLLOW(start) and is
//! absorbing: nothing can follow it.
//!
//! Only the *numbering* of terminals and non-terminals is taken from parol
//! (`Cfg::get_terminal_index_function`, alphabetical non-terminal order) - that is C18's
//! subject, not C06's.

use parol::analysis::CompiledTerminal;
use parol::{GrammarConfig, Symbol};
use std::collections::BTreeSet;
use std::rc::Rc;

pub type TStr = Vec<u16>;
pub type TSet = BTreeSet<TStr>;

pub const EOI: u16 = 0;

#[derive(Clone, Debug, PartialEq)]
pub enum RSym {
    T(u16),
    N(usize),
}

pub struct RefGrammar {
    pub nts: Vec<String>,
    pub start: usize,
    /// (lhs non-terminal index, rhs)
    pub prods: Vec<(usize, Vec<RSym>)>,
    pub n_terminals: usize,
}

impl RefGrammar {
    pub fn from_config(gc: &GrammarConfig) -> RefGrammar {
        let cfg = &gc.cfg;
        let nts: Vec<String> = cfg.get_non_terminal_set().into_iter().collect();
        let idx = |n: &str| nts.iter().position(|x| x == n).unwrap();
        let ti = Rc::new(cfg.get_terminal_index_function());
        let mut prods = vec![];
        for pr in cfg.pr.iter() {
            let lhs = idx(&pr.get_n());
            let mut rhs = vec![];
            for s in pr.get_r().iter() {
                match s {
                    Symbol::T(_) => rhs.push(RSym::T(CompiledTerminal::create(s, Rc::clone(&ti)).0)),
                    Symbol::N(n, ..) => rhs.push(RSym::N(idx(n))),
                    _ => {}
                }
            }
            prods.push((lhs, rhs));
        }
        RefGrammar {
            start: idx(cfg.get_start_symbol()),
            n_terminals: cfg.get_ordered_terminals().len(),
            nts,
            prods,
        }
    }

    // --- structural filter for raw (untransformed) generated grammars -------------------

    pub fn nullable(&self) -> Vec<bool> {
        let mut n = vec![false; self.nts.len()];
        loop {
            let mut ch = false;
            for (l, r) in &self.prods {
                if !n[*l] && r.iter().all(|s| matches!(s, RSym::N(i) if n[*i])) {
                    n[*l] = true;
                    ch = true;
                }
            }
            if !ch {
                return n;
            }
        }
    }

    pub fn productive(&self) -> Vec<bool> {
        let mut p = vec![false; self.nts.len()];
        loop {
            let mut ch = false;
            for (l, r) in &self.prods {
                if !p[*l] && r.iter().all(|s| match s {
                    RSym::T(_) => true,
                    RSym::N(i) => p[*i],
                }) {
                    p[*l] = true;
                    ch = true;
                }
            }
            if !ch {
                return p;
            }
        }
    }

    pub fn reachable(&self) -> Vec<bool> {
        let mut r = vec![false; self.nts.len()];
        r[self.start] = true;
        loop {
            let mut ch = false;
            for (l, rhs) in &self.prods {
                if r[*l] {
                    for s in rhs {
                        if let RSym::N(i) = s {
                            if !r[*i] {
                                r[*i] = true;
                                ch = true;
                            }
                        }
                    }
                }
            }
            if !ch {
                return r;
            }
        }
    }

    /// A =>+ A alpha (including through nullable prefixes)
    pub fn left_recursive(&self) -> bool {
        let nullable = self.nullable();
        let n = self.nts.len();
        let mut edge = vec![vec![false; n]; n];
        for (l, r) in &self.prods {
            for s in r {
                match s {
                    RSym::T(_) => break,
                    RSym::N(i) => {
                        edge[*l][*i] = true;
                        if !nullable[*i] {
                            break;
                        }
                    }
                }
            }
        }
        // transitive closure
        for k in 0..n {
            for i in 0..n {
                if edge[i][k] {
                    for j in 0..n {
                        if edge[k][j] {
                            edge[i][j] = true;
                        }
                    }
                }
            }
        }
        (0..n).any(|i| edge[i][i])
    }

    pub fn well_formed(&self) -> bool {
        self.productive().iter().all(|b| *b)
            && self.reachable().iter().all(|b| *b)
            && !self.left_recursive()
            && self.nts.iter().enumerate().all(|(i, _)| self.prods.iter().any(|(l, _)| *l == i))
    }

    // --- the definition -----------------------------------------------------------------

    /// FIRST_k of every non-terminal (index order) - least fixpoint from the empty sets.
    /// `cap`: give up (None) when the total number of strings exceeds it.
    pub fn first(&self, k: usize, cap: usize) -> Option<Vec<TSet>> {
        let mut f: Vec<TSet> = vec![TSet::new(); self.nts.len()];
        loop {
            let mut changed = false;
            for (l, rhs) in &self.prods {
                let s = self.first_of_seq(rhs, k, &f);
                for x in s {
                    if f[*l].insert(x) {
                        changed = true;
                    }
                }
            }
            if f.iter().map(|s| s.len()).sum::<usize>() > cap {
                return None;
            }
            if !changed {
                return Some(f);
            }
        }
    }

    pub fn first_of_seq(&self, seq: &[RSym], k: usize, f: &[TSet]) -> TSet {
        let mut cur: TSet = TSet::new();
        cur.insert(vec![]);
        for s in seq {
            let next: TSet = match s {
                RSym::T(t) => {
                    let mut o = TSet::new();
                    o.insert(vec![*t]);
                    o
                }
                RSym::N(i) => f[*i].clone(),
            };
            cur = concat_k(&cur, &next, k);
            if cur.is_empty() {
                break;
            }
        }
        cur
    }

    /// FIRST_k of each production's right-hand side
    pub fn first_of_productions(&self, k: usize, f: &[TSet]) -> Vec<TSet> {
        self.prods.iter().map(|(_, r)| self.first_of_seq(r, k, f)).collect()
    }

    /// FOLLOW_k of every non-terminal; end of input in FOLLOW(start).
    pub fn follow(&self, k: usize, first: &[TSet], cap: usize) -> Option<Vec<TSet>> {
        let mut fo: Vec<TSet> = vec![TSet::new(); self.nts.len()];
        fo[self.start].insert(if k == 0 { vec![] } else { vec![EOI] });
        loop {
            let mut changed = false;
            for (l, rhs) in &self.prods {
                for (i, s) in rhs.iter().enumerate() {
                    if let RSym::N(b) = s {
                        let beta = self.first_of_seq(&rhs[i + 1..], k, first);
                        let add = concat_k(&beta, &fo[*l].clone(), k);
                        for x in add {
                            if fo[*b].insert(x) {
                                changed = true;
                            }
                        }
                    }
                }
            }
            if fo.iter().map(|s| s.len()).sum::<usize>() > cap {
                return None;
            }
            if !changed {
                return Some(fo);
            }
        }
    }
}

/// k-truncated concatenation of two sets; the end marker is absorbing.
pub fn concat_k(a: &TSet, b: &TSet, k: usize) -> TSet {
    let mut out = TSet::new();
    if b.is_empty() {
        return out; // no string at all can be formed
    }
    for x in a {
        if x.len() >= k || x.last() == Some(&EOI) {
            let mut t = x.clone();
            t.truncate(k);
            out.insert(t);
            continue;
        }
        for y in b {
            let mut t = x.clone();
            t.extend_from_slice(y);
            // nothing follows an end marker
            if let Some(p) = t.iter().position(|c| *c == EOI) {
                t.truncate(p + 1);
            }
            t.truncate(k);
            out.insert(t);
        }
    }
    out
}

pub fn trunc(s: &TSet, k: usize) -> TSet {
    s.iter()
        .map(|x| {
            let mut t = x.clone();
            t.truncate(k);
            t
        })
        .collect()
}
