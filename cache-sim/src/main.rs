fn main() {}
