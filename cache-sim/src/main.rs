//! cache-sim: request histories with slot-eviction faults against the real
//! FirstCache / FollowCache of parol (C06).  See /verif/DESIGN.md §5.
//!
//! Every answer of the stateful caches is compared with (1) the answer of fresh
//! caches (history independence) and (2) an independent executable definition of
//! FIRST_k / FOLLOW_k (least fixpoint over k-truncated concatenation).

mod reference;

use parol::analysis::k_decision::{calculate_k_tuples, decidable, explain_conflicts};
use parol::analysis::{first_k, follow_k, FirstCache, FirstSet, FollowCache, FollowSet};
use parol::{obtain_grammar_config_from_string, GrammarConfig, KTuples};
use reference::{RefGrammar, TSet};
use serde::{Deserialize, Serialize};
use serde_json::json;
use simcore::{Evidence, Fnv, Rng, Tier};
use std::collections::{BTreeMap, BTreeSet};
use std::panic::{catch_unwind, AssertUnwindSafe};
use std::path::{Path, PathBuf};

const ENGINE_ID: u64 = 0xC06;
const PROPERTY: &str = "C06";
const MAX_K: usize = 10;

fn harness_error(msg: &str) -> ! {
    println!("HARNESS-ERROR: {msg}");
    std::process::exit(simcore::EXIT_HARNESS);
}

// ---------------------------------------------------------------------------
// operations
// ---------------------------------------------------------------------------

#[derive(Clone, Debug, Serialize, Deserialize, PartialEq)]
enum Op {
    FirstGet(usize),
    /// uncached entry point `first_k` (still reads k-1 through the cache)
    FirstK(usize),
    FollowGet(usize),
    FollowK(usize),
    Decidable(usize, usize),
    Explain(usize, usize),
    KTuples(usize),
    /// fault: slot k of the FIRST cache is reset to "not computed"
    EvictFirst(usize),
    /// fault: slot k of the FOLLOW cache is reset to "not computed"
    EvictFollow(usize),
}

impl Op {
    fn is_fault(&self) -> bool {
        matches!(self, Op::EvictFirst(_) | Op::EvictFollow(_))
    }
    fn k(&self) -> usize {
        match self {
            Op::FirstGet(k) | Op::FirstK(k) | Op::FollowGet(k) | Op::FollowK(k) | Op::KTuples(k)
            | Op::EvictFirst(k) | Op::EvictFollow(k) => *k,
            Op::Decidable(_, k) | Op::Explain(_, k) => *k,
        }
    }
}

fn canon_tuples(kt: &KTuples) -> Vec<Vec<u16>> {
    let mut v: Vec<Vec<u16>> = kt
        .sorted()
        .iter()
        .map(|t| {
            if t.is_eps() {
                vec![]
            } else {
                t.terminals().iter().collect()
            }
        })
        .collect();
    v.sort();
    v
}

fn canon_first(f: &FirstSet) -> (Vec<Vec<Vec<u16>>>, Vec<Vec<Vec<u16>>>) {
    (
        f.productions.iter().map(canon_tuples).collect(),
        f.non_terminals.iter().map(canon_tuples).collect(),
    )
}

fn canon_follow(f: &FollowSet) -> Vec<Vec<Vec<u16>>> {
    f.non_terminals.iter().map(canon_tuples).collect()
}

/// Observable result of one operation in a canonical, comparable form.
#[derive(Clone, Debug, PartialEq)]
enum Obs {
    First(Vec<Vec<Vec<u16>>>, Vec<Vec<Vec<u16>>>),
    Follow(Vec<Vec<Vec<u16>>>),
    Decidable(Result<usize, String>),
    Conflicts(Result<Vec<(usize, Vec<Vec<u16>>, usize, Vec<Vec<u16>>)>, String>),
    Tuples(Result<BTreeMap<usize, Vec<Vec<u16>>>, String>),
    Evicted,
    Populated(bool),
    Panic(String),
}

struct Caches {
    first: FirstCache,
    follow: FollowCache,
}

impl Caches {
    fn new() -> Self {
        Caches {
            first: FirstCache::new(),
            follow: FollowCache::new(),
        }
    }
    fn populated_mask(&self) -> (u16, u16) {
        let mut a = 0u16;
        let mut b = 0u16;
        for k in 0..=MAX_K {
            if !self.first.0[k].borrow().is_empty() {
                a |= 1 << k;
            }
            if !self.follow.0[k].borrow().is_empty() {
                b |= 1 << k;
            }
        }
        (a, b)
    }
}

fn err_class(e: &anyhow::Error) -> String {
    // error *texts* may mention k; only the kind is compared
    let s = e.to_string();
    s.chars().take(40).collect()
}

fn apply(op: &Op, gc: &GrammarConfig, nts: &[String], c: &Caches) -> Obs {
    let r = catch_unwind(AssertUnwindSafe(|| match op {
        Op::FirstGet(k) => {
            let f = c.first.get(*k, gc);
            let f = f.borrow();
            let (p, n) = canon_first(&f);
            Obs::First(p, n)
        }
        Op::FirstK(k) => {
            let f = first_k(gc, *k, &c.first);
            let (p, n) = canon_first(&f);
            Obs::First(p, n)
        }
        Op::FollowGet(k) => {
            // The entry's fields are crate-private: the request only populates the slot; its
            // content is observed by the consumers (decidable, explain_conflicts,
            // calculate_k_tuples) and through the seeding of follow_k(k+1).
            let f = c.follow.get(*k, gc, &c.first);
            let empty = f.borrow().is_empty();
            Obs::Populated(!empty)
        }
        Op::FollowK(k) => {
            let (_, f) = follow_k(gc, *k, &c.first, &c.follow);
            Obs::Follow(canon_follow(&f))
        }
        Op::Decidable(nt, max_k) => Obs::Decidable(
            decidable(gc, &nts[*nt % nts.len()], *max_k, &c.first, &c.follow).map_err(|e| err_class(&e)),
        ),
        Op::Explain(nt, k) => Obs::Conflicts(
            explain_conflicts(gc, &nts[*nt % nts.len()], *k, &c.first, &c.follow)
                .map(|v| {
                    let mut v: Vec<_> = v
                        .iter()
                        .map(|(a, ta, b, tb)| (*a, canon_tuples(ta), *b, canon_tuples(tb)))
                        .collect();
                    v.sort();
                    v
                })
                .map_err(|e| err_class(&e)),
        ),
        Op::KTuples(max_k) => Obs::Tuples(
            calculate_k_tuples(gc, *max_k, &c.first, &c.follow)
                .map(|m| m.iter().map(|(k, v)| (*k, canon_tuples(v))).collect())
                .map_err(|e| err_class(&e)),
        ),
        Op::EvictFirst(k) => {
            *c.first.0[*k].borrow_mut() = Default::default();
            Obs::Evicted
        }
        Op::EvictFollow(k) => {
            *c.follow.0[*k].borrow_mut() = Default::default();
            Obs::Evicted
        }
    }));
    match r {
        Ok(o) => o,
        Err(p) => Obs::Panic(if let Some(s) = p.downcast_ref::<&str>() {
            s.to_string()
        } else if let Some(s) = p.downcast_ref::<String>() {
            s.clone()
        } else {
            "<panic>".into()
        }),
    }
}

// ---------------------------------------------------------------------------
// grammars
// ---------------------------------------------------------------------------

#[derive(Clone, Debug, Serialize, Deserialize)]
struct GrammarSpec {
    origin: String,
    text: String,
    /// run parol's check_and_transform_grammar (canonicalisation, left factoring) first
    transform: bool,
}

struct Prepared {
    gc: GrammarConfig,
    rg: RefGrammar,
    nts: Vec<String>,
    /// reference FIRST/FOLLOW per k (index k), up to kmax
    ref_first: Vec<Vec<TSet>>,
    ref_follow: Vec<Vec<TSet>>,
    kmax: usize,
}

fn prepare(g: &GrammarSpec, cap: usize, k_limit: usize) -> Option<Prepared> {
    let r = catch_unwind(AssertUnwindSafe(|| -> Option<Prepared> {
        let mut gc = obtain_grammar_config_from_string(&g.text, false).ok()?;
        if gc.grammar_type != parol::parser::parol_grammar::GrammarType::LLK {
            return None;
        }
        if g.transform {
            let cfg = parol::generators::grammar_trans::check_and_transform_grammar(&gc.cfg, gc.grammar_type).ok()?;
            gc.update_cfg(cfg);
        }
        let rg = RefGrammar::from_config(&gc);
        if !rg.well_formed() {
            return None;
        }
        // only N and T symbols may occur (first_k has unreachable!() for anything else)
        if gc.cfg.pr.iter().any(|p| p.get_r().iter().any(|s| !matches!(s, parol::Symbol::N(..) | parol::Symbol::T(parol::Terminal::Trm(..))))) {
            return None;
        }
        let mut ref_first = vec![];
        let mut ref_follow = vec![];
        let mut kmax = 0;
        for k in 0..=k_limit {
            let Some(f) = rg.first(k, cap) else { break };
            let Some(fo) = rg.follow(k, &f, cap) else { break };
            ref_first.push(f);
            ref_follow.push(fo);
            kmax = k;
        }
        if kmax == 0 {
            return None;
        }
        let nts = rg.nts.clone();
        Some(Prepared { gc, rg, nts, ref_first, ref_follow, kmax })
    }));
    r.ok().flatten()
}

fn gen_raw_grammar(rng: &mut Rng) -> String {
    let n_nt = rng.range(1, 6) as usize;
    let n_t = rng.range(1, 4) as usize;
    let terms = ["a", "b", "c", "d"];
    let mut out = String::from("%start N0\n%%\n");
    for i in 0..n_nt {
        let n_alts = rng.range(1, 4) as usize;
        let mut alts: Vec<String> = vec![];
        for a in 0..n_alts {
            let len = if rng.chance(1, 6) { 0 } else { rng.range(1, 4) as usize };
            let mut syms: Vec<String> = vec![];
            for p in 0..len {
                // the first alternative of every rule refers to later rules only (productive)
                let allow_any = a > 0;
                let r = rng.below(10);
                if r < 5 {
                    syms.push(format!("\"{}\"", terms[rng.usize_below(n_t)]));
                } else if allow_any && (p > 0 || rng.chance(1, 3)) {
                    syms.push(format!("N{}", rng.usize_below(n_nt)));
                } else if i + 1 < n_nt {
                    syms.push(format!("N{}", rng.range(i as u64 + 1, n_nt as u64 - 1)));
                } else {
                    syms.push(format!("\"{}\"", terms[rng.usize_below(n_t)]));
                }
            }
            alts.push(syms.join(" "));
        }
        // reachability: rule i refers to rule i+1 somewhere
        if i + 1 < n_nt {
            let a = rng.usize_below(alts.len());
            if rng.chance(1, 2) {
                alts[a] = format!("{} N{}", alts[a], i + 1);
            } else {
                alts[a] = format!("N{} {}", i + 1, alts[a]);
            }
        }
        out.push_str(&format!("N{i}: {};\n", alts.join(" | ")));
    }
    out
}

fn load_corpus() -> Vec<(String, String)> {
    let dir = simcore::verif_root().join("corpus").join("par");
    let mut v = vec![];
    if let Ok(rd) = std::fs::read_dir(&dir) {
        for e in rd.flatten() {
            let name = e.file_name().to_string_lossy().to_string();
            if name.ends_with(".par") {
                if let Ok(t) = std::fs::read_to_string(e.path()) {
                    if t.len() < 6000 {
                        v.push((name, t));
                    }
                }
            }
        }
    }
    v.sort();
    v
}

// ---------------------------------------------------------------------------
// runs
// ---------------------------------------------------------------------------

#[derive(Clone, Debug, Serialize, Deserialize)]
struct RunSpec {
    grammar: GrammarSpec,
    ops: Vec<Op>,
}

fn gen_ops(rng: &mut Rng, p: &Prepared, with_faults: bool) -> Vec<Op> {
    let n = rng.range(6, 40) as usize;
    let kmax = p.kmax;
    let mut ops = vec![];
    // swarm: request-order style of this run
    let style = rng.below(4); // 0 random, 1 descending first, 2 ascending, 3 hammer one k
    let hammer = rng.usize_below(kmax + 1);
    for i in 0..n {
        let k = match style {
            1 if i < kmax + 1 => kmax - i.min(kmax),
            2 => (i % (kmax + 1)).min(kmax),
            3 if rng.chance(2, 3) => hammer,
            _ => rng.usize_below(kmax + 1),
        };
        let nt = rng.usize_below(p.nts.len());
        let w: [u64; 9] = if with_faults { [5, 3, 4, 4, 3, 2, 2, 3, 3] } else { [5, 3, 4, 4, 3, 2, 2, 0, 0] };
        let op = match rng.weighted(&w) {
            0 => Op::FirstGet(k),
            1 => Op::FirstK(k),
            2 => Op::FollowGet(k),
            3 => Op::FollowK(k),
            4 => Op::Decidable(nt, k.max(1)),
            5 => Op::Explain(nt, k.max(1)),
            6 => Op::KTuples(k.max(1)),
            7 => Op::EvictFirst(rng.usize_below(kmax + 1)),
            _ => Op::EvictFollow(rng.usize_below(kmax + 1)),
        };
        ops.push(op);
    }
    ops
}

#[derive(Clone, Debug)]
struct Finding {
    class: String,
    step: usize,
    detail: String,
}

fn set_of(v: &[Vec<u16>]) -> TSet {
    v.iter().cloned().collect()
}

fn ref_decidable(p: &Prepared, nt: usize, max_k: usize) -> Option<Result<usize, ()>> {
    let prods: Vec<usize> = p.rg.prods.iter().enumerate().filter(|(_, (l, _))| *l == nt).map(|(i, _)| i).collect();
    if prods.len() == 1 {
        return Some(Ok(0));
    }
    for k in 1..=max_k {
        if k > p.kmax {
            return None; // beyond what the reference computed
        }
        let fp = p.rg.first_of_productions(k, &p.ref_first[k]);
        let sets: Vec<TSet> = prods.iter().map(|pi| reference::concat_k(&fp[*pi], &p.ref_follow[k][nt], k)).collect();
        let mut disjoint = true;
        for i in 0..sets.len() {
            for j in 0..sets.len() {
                if i != j && sets[i].intersection(&sets[j]).next().is_some() {
                    disjoint = false;
                }
            }
        }
        if disjoint {
            return Some(Ok(k));
        }
    }
    Some(Err(()))
}

struct RunStats {
    answers: u64,
    definition_checks: u64,
    states: BTreeSet<(u16, u16, usize)>,
    evictions: u64,
    evictions_of_populated: u64,
    descending_first: u64,
    panics: u64,
}

/// Executes the history; returns the first violation, if any.
fn execute(p: &Prepared, ops: &[Op], stats: Option<&mut RunStats>) -> Option<Finding> {
    let stateful = Caches::new();
    let mut local = RunStats { answers: 0, definition_checks: 0, states: BTreeSet::new(), evictions: 0, evictions_of_populated: 0, descending_first: 0, panics: 0 };
    let mut finding = None;
    let mut first_request_k: Option<usize> = None;
    for (step, op) in ops.iter().enumerate() {
        let (ma, mb) = stateful.populated_mask();
        if op.is_fault() {
            local.evictions += 1;
            let pop = match op {
                Op::EvictFirst(k) => ma & (1 << k) != 0,
                Op::EvictFollow(k) => mb & (1 << k) != 0,
                _ => false,
            };
            if pop {
                local.evictions_of_populated += 1;
            }
            apply(op, &p.gc, &p.nts, &stateful);
            continue;
        }
        if (ma | mb) != 0 {
            local.states.insert((ma, mb, op.k()));
        }
        if first_request_k.is_none() {
            first_request_k = Some(op.k());
            if op.k() >= 2 {
                local.descending_first += 1;
            }
        }
        let got = apply(op, &p.gc, &p.nts, &stateful);
        local.answers += 1;
        // oracle 1: history independence - the same call on fresh caches
        let fresh = Caches::new();
        let want = apply(op, &p.gc, &p.nts, &fresh);
        if let Obs::Panic(m) = &got {
            local.panics += 1;
            if !matches!(want, Obs::Panic(_)) {
                finding = Some(Finding { class: "history-dependence".into(), step, detail: format!("{op:?} panicked on the used caches ({m}) but not on fresh ones") });
                break;
            }
        }
        if got != want {
            finding = Some(Finding {
                class: "history-dependence".into(),
                step,
                detail: format!("{op:?} after {} earlier operations answers differently from the same call on fresh caches (populated FIRST slots {ma:#b}, FOLLOW slots {mb:#b})", step),
            });
            break;
        }
        // oracle 2: the definition (k >= 1)
        let k = op.k();
        if k >= 1 && k <= p.kmax {
            match (&got, op) {
                (Obs::First(prods, nts), Op::FirstGet(_) | Op::FirstK(_)) => {
                    local.definition_checks += 1;
                    let rf = &p.ref_first[k];
                    let rp = p.rg.first_of_productions(k, rf);
                    for (i, s) in nts.iter().enumerate() {
                        if set_of(s) != rf[i] {
                            finding = Some(Finding { class: "first-differs-from-definition".into(), step, detail: format!("FIRST_{k}({}) = {:?}, definition gives {:?}", p.nts[i], s, rf[i]) });
                        }
                    }
                    for (i, s) in prods.iter().enumerate() {
                        if finding.is_none() && set_of(s) != rp[i] {
                            finding = Some(Finding { class: "first-differs-from-definition".into(), step, detail: format!("FIRST_{k}(production {i}) = {:?}, definition gives {:?}", s, rp[i]) });
                        }
                    }
                }
                (Obs::Follow(nts), Op::FollowK(_)) => {
                    local.definition_checks += 1;
                    let rf = &p.ref_follow[k];
                    for (i, s) in nts.iter().enumerate() {
                        if set_of(s) != rf[i] {
                            finding = Some(Finding { class: "follow-differs-from-definition".into(), step, detail: format!("FOLLOW_{k}({}) = {:?}, definition gives {:?}", p.nts[i], s, rf[i]) });
                            break;
                        }
                    }
                }
                (Obs::Decidable(r), Op::Decidable(nt, max_k)) => {
                    if let Some(want) = ref_decidable(p, *nt % p.nts.len(), *max_k) {
                        local.definition_checks += 1;
                        let same = match (r, &want) {
                            (Ok(a), Ok(b)) => a == b,
                            (Err(_), Err(())) => true,
                            _ => false,
                        };
                        if !same {
                            finding = Some(Finding { class: "decision-differs-from-definition".into(), step, detail: format!("decidable({}, {max_k}) = {:?}, definition gives {:?}", p.nts[*nt % p.nts.len()], r, want) });
                        }
                    }
                }
                (Obs::Conflicts(Ok(v)), Op::Explain(nt, _)) => {
                    // every reported pair consists of FIRST_k(production).FOLLOW_k(lhs) sets that
                    // really intersect; and pairs are reported iff some pair intersects
                    let nt = *nt % p.nts.len();
                    let prods: Vec<usize> = p.rg.prods.iter().enumerate().filter(|(_, (l, _))| *l == nt).map(|(i, _)| i).collect();
                    let fp = p.rg.first_of_productions(k, &p.ref_first[k]);
                    let want = |pi: usize| reference::concat_k(&fp[pi], &p.ref_follow[k][nt], k);
                    local.definition_checks += 1;
                    for (a, ta, b, tb) in v {
                        if !prods.contains(a) || !prods.contains(b) || set_of(ta) != want(*a) || set_of(tb) != want(*b) {
                            finding = Some(Finding { class: "conflicts-differ-from-definition".into(), step, detail: format!("explain_conflicts({}, {k}) reports productions {a}/{b} with tuple sets that are not FIRST_k.FOLLOW_k of these productions", p.nts[nt]) });
                            break;
                        }
                        if set_of(ta).intersection(&set_of(tb)).next().is_none() {
                            finding = Some(Finding { class: "conflicts-differ-from-definition".into(), step, detail: format!("explain_conflicts({}, {k}) reports the disjoint pair {a}/{b}", p.nts[nt]) });
                            break;
                        }
                    }
                    if finding.is_none() && prods.len() > 1 {
                        let mut any = false;
                        for i in &prods {
                            for j in &prods {
                                if i != j && want(*i).intersection(&want(*j)).next().is_some() {
                                    any = true;
                                }
                            }
                        }
                        if any == v.is_empty() {
                            finding = Some(Finding { class: "conflicts-differ-from-definition".into(), step, detail: format!("explain_conflicts({}, {k}) reports {} pairs, the definition says conflicts exist: {any}", p.nts[nt], v.len()) });
                        }
                    }
                }
                (Obs::Tuples(Ok(m)), Op::KTuples(max_k)) => {
                    // FIRST_k(production) . FOLLOW_k(lhs) at the minimal deciding k of the lhs
                    let mut ok = true;
                    let mut checked = false;
                    for (pi, got_set) in m {
                        let nt = p.rg.prods[*pi].0;
                        if let Some(Ok(kd)) = ref_decidable(p, nt, *max_k) {
                            if kd <= p.kmax {
                                checked = true;
                                let fp = p.rg.first_of_productions(kd, &p.ref_first[kd]);
                                let want = if kd == 0 {
                                    // k = 0: representation convention of the end marker (DESIGN §5.3): skip
                                    continue;
                                } else {
                                    reference::concat_k(&fp[*pi], &p.ref_follow[kd][nt], kd)
                                };
                                if set_of(got_set) != want {
                                    ok = false;
                                    finding = Some(Finding { class: "k-tuples-differ-from-definition".into(), step, detail: format!("lookahead tuples of production {pi} (k={kd}) = {:?}, definition gives {:?}", got_set, want) });
                                    break;
                                }
                            }
                        }
                    }
                    if checked && ok {
                        local.definition_checks += 1;
                    }
                }
                _ => {}
            }
        }
        if finding.is_some() {
            break;
        }
    }
    if let Some(s) = stats {
        s.answers += local.answers;
        s.definition_checks += local.definition_checks;
        s.states.extend(local.states);
        s.evictions += local.evictions;
        s.evictions_of_populated += local.evictions_of_populated;
        s.descending_first += local.descending_first;
        s.panics += local.panics;
    }
    finding
}

fn run_spec(spec: &RunSpec, cap: usize, k_limit: usize, stats: Option<&mut RunStats>) -> Result<Option<Finding>, String> {
    let Some(p) = prepare(&spec.grammar, cap, k_limit) else {
        return Err("grammar not usable (rejected by parol, not LL, or not well-formed)".into());
    };
    let ops: Vec<Op> = spec.ops.iter().filter(|o| o.k() <= p.kmax).cloned().collect();
    Ok(execute(&p, &ops, stats))
}

// ---------------------------------------------------------------------------
// batch
// ---------------------------------------------------------------------------

struct Budget {
    runs: usize,
    cap: usize,
    k_limit: usize,
}

fn budget_for(tier: Tier) -> Budget {
    let scale: f64 = std::env::var("VERIF_SCALE").ok().and_then(|s| s.parse().ok()).unwrap_or(1.0);
    match tier {
        Tier::Quick => Budget { runs: (8000.0 * scale) as usize, cap: 8_000, k_limit: 8 },
        Tier::Thorough => Budget { runs: (40_000.0 * scale) as usize, cap: 15_000, k_limit: 10 },
    }
}

fn gen_run(seed: u64, i: usize, corpus: &[(String, String)]) -> (GrammarSpec, u64) {
    let mut rng = Rng::for_run(seed, ENGINE_ID, i as u64);
    let g = if rng.chance(1, 4) && !corpus.is_empty() {
        let (name, text) = rng.pick(corpus).clone();
        GrammarSpec { origin: format!("corpus:{name}"), text, transform: true }
    } else {
        let text = gen_raw_grammar(&mut rng);
        GrammarSpec { origin: format!("gen:{i}"), text, transform: rng.chance(1, 3) }
    };
    (g, rng.next_u64())
}

fn minimise(spec: &RunSpec, f: &Finding, cap: usize, k_limit: usize) -> (RunSpec, Finding) {
    let class = f.class.clone();
    let mut best = (spec.clone(), f.clone());
    // 1. operations
    let ops = simcore::ddmin(&spec.ops, |cand| {
        let s = RunSpec { grammar: spec.grammar.clone(), ops: cand.to_vec() };
        match run_spec(&s, cap, k_limit, None) {
            Ok(Some(ff)) if ff.class == class => {
                best = (s, ff);
                true
            }
            _ => false,
        }
    });
    let _ = ops;
    // 2. grammar lines (productions), line based
    let lines: Vec<String> = best.0.grammar.text.lines().map(|l| l.to_string()).collect();
    let ops2 = best.0.ops.clone();
    let origin = best.0.grammar.origin.clone();
    let transform = best.0.grammar.transform;
    let mut budget = 300;
    let small = simcore::ddmin(&lines, |cand| {
        if budget == 0 {
            return false;
        }
        budget -= 1;
        let s = RunSpec { grammar: GrammarSpec { origin: origin.clone(), text: cand.join("\n") + "\n", transform }, ops: ops2.clone() };
        matches!(run_spec(&s, cap, k_limit, None), Ok(Some(ff)) if ff.class == class)
    });
    let s = RunSpec { grammar: GrammarSpec { origin, text: small.join("\n") + "\n", transform }, ops: ops2 };
    if let Ok(Some(ff)) = run_spec(&s, cap, k_limit, None) {
        if ff.class == class {
            best = (s, ff);
        }
    }
    best
}

fn finding_key(spec: &RunSpec, f: &Finding) -> String {
    format!("{}|{}", f.class, simcore::fnv_hex(spec.grammar.text.as_bytes()))
}

enum Msg {
    Spec(RunSpec),
    Done(Box<Res>),
}

struct Res {
    usable: bool,
    spec: Option<RunSpec>,
    finding: Option<Finding>,
    stats: RunStats,
    log: String,
    kmax: usize,
}

fn one_run(seed: u64, i: usize, corpus: &[(String, String)], cap: usize, k_limit: usize, early: &std::sync::mpsc::Sender<Msg>) -> Res {
    let (g, opseed) = gen_run(seed, i, corpus);
    let mut stats = RunStats { answers: 0, definition_checks: 0, states: BTreeSet::new(), evictions: 0, evictions_of_populated: 0, descending_first: 0, panics: 0 };
    let Some(p) = prepare(&g, cap, k_limit) else {
        return Res { usable: false, spec: None, finding: None, stats, log: format!("{i} {} unusable", g.origin), kmax: 0 };
    };
    let mut rng = Rng::new(opseed);
    let with_faults = rng.chance(2, 3);
    let ops = gen_ops(&mut rng, &p, with_faults);
    // the spec travels ahead of the result: if the execution never returns, the watchdog still
    // knows what was being executed
    let _ = early.send(Msg::Spec(RunSpec { grammar: g.clone(), ops: ops.clone() }));
    let finding = execute(&p, &ops, Some(&mut stats));
    let log = format!(
        "{i} {} {} t={} kmax={} ops={} answers={} defchecks={} finding={:?}",
        g.origin, simcore::fnv_hex(g.text.as_bytes()), g.transform, p.kmax, ops.len(), stats.answers, stats.definition_checks,
        finding.as_ref().map(|f| (&f.class, f.step))
    );
    Res { usable: true, kmax: p.kmax, spec: Some(RunSpec { grammar: g, ops }), finding, stats, log }
}

fn run_batch(tier: Tier, emit_log: Option<&Path>) -> i32 {
    let t0 = std::time::Instant::now();
    let seed = simcore::env_seed();
    let workers = simcore::env_workers();
    let b = budget_for(tier);
    let corpus = load_corpus();
    println!("cache-sim: property={PROPERTY} tier={} seed={seed} runs={} workers={workers}", tier.as_str(), b.runs);

    // Every run executes on a thread of its own so that a computation that does not come back
    // (a fixpoint iteration that no longer converges) cannot hang the check: after RUN_TIMEOUT the
    // run is reported as `no-answer`; the stuck thread is abandoned (it dies with the process).
    // After three such runs no further runs are started.
    let timeouts = std::sync::atomic::AtomicUsize::new(0);
    let run_timeout = std::time::Duration::from_secs(
        std::env::var("VERIF_C06_TIMEOUT").ok().and_then(|s| s.parse().ok()).unwrap_or(120),
    );
    let corpus = std::sync::Arc::new(corpus);
    let results: Vec<Res> = simcore::par_map(b.runs, workers, 256 << 10, |i| {
        if timeouts.load(std::sync::atomic::Ordering::Relaxed) >= 3 {
            let stats = RunStats { answers: 0, definition_checks: 0, states: BTreeSet::new(), evictions: 0, evictions_of_populated: 0, descending_first: 0, panics: 0 };
            return Res { usable: false, spec: None, finding: None, stats, log: format!("{i} skipped after repeated time-outs"), kmax: 0 };
        }
        let (tx, rx) = std::sync::mpsc::channel();
        let corpus2 = corpus.clone();
        let (cap, k_limit) = (b.cap, b.k_limit);
        let _ = std::thread::Builder::new().stack_size(64 << 20).spawn(move || {
            let r = one_run(seed, i, &corpus2, cap, k_limit, &tx);
            let _ = tx.send(Msg::Done(Box::new(r)));
        });
        let deadline = std::time::Instant::now() + run_timeout;
        let mut spec: Option<RunSpec> = None;
        loop {
            let left = deadline.saturating_duration_since(std::time::Instant::now());
            match rx.recv_timeout(left) {
                Ok(Msg::Spec(sp)) => spec = Some(sp),
                Ok(Msg::Done(r)) => break *r,
                Err(_) => {
                    timeouts.fetch_add(1, std::sync::atomic::Ordering::Relaxed);
                    let stats = RunStats { answers: 0, definition_checks: 0, states: BTreeSet::new(), evictions: 0, evictions_of_populated: 0, descending_first: 0, panics: 0 };
                    let finding = Some(Finding { class: "no-answer".into(), step: 0, detail: format!("the run did not finish within {} s (normal runs take milliseconds): some FIRST/FOLLOW computation does not terminate", run_timeout.as_secs()) });
                    let spec = spec.or_else(|| Some(RunSpec { grammar: gen_run(seed, i, &corpus).0, ops: vec![] }));
                    break Res { usable: true, kmax: 0, spec, finding, stats, log: format!("{i} time-out") };
                }
            }
        }
    });

    let mut log = Fnv::new();
    let mut lines = vec![];
    for r in &results {
        log.write_str(&r.log);
        lines.push(r.log.clone());
    }
    if let Some(p) = emit_log {
        let _ = std::fs::write(p, lines.join("\n") + "\n");
    }
    let dry = emit_log.is_some();

    let mut answers = 0u64;
    let mut defchecks = 0u64;
    let mut states: BTreeSet<(u16, u16, usize)> = BTreeSet::new();
    let mut evictions = 0u64;
    let mut evict_pop = 0u64;
    let mut desc = 0u64;
    let mut usable = 0u64;
    let mut panics = 0u64;
    let mut kmax_hist: BTreeMap<usize, u64> = BTreeMap::new();
    let mut grammars: BTreeSet<String> = BTreeSet::new();
    for r in &results {
        if r.usable {
            usable += 1;
            *kmax_hist.entry(r.kmax).or_default() += 1;
            if let Some(s) = &r.spec {
                grammars.insert(simcore::fnv_hex(s.grammar.text.as_bytes()));
            }
        }
        answers += r.stats.answers;
        defchecks += r.stats.definition_checks;
        states.extend(r.stats.states.iter().cloned());
        evictions += r.stats.evictions;
        evict_pop += r.stats.evictions_of_populated;
        desc += r.stats.descending_first;
        panics += r.stats.panics;
    }

    let known = simcore::load_known_findings(PROPERTY);
    let mut violations = 0u64;
    let mut known_seen: BTreeMap<String, u64> = BTreeMap::new();
    let mut reported: BTreeSet<String> = BTreeSet::new();
    let mut n_replay = 0;
    for r in &results {
        let (Some(spec), Some(f)) = (&r.spec, &r.finding) else { continue };
        let key = finding_key(spec, f);
        if let Some(k) = known.iter().find(|k| k.status == "open" && k.class == f.class && (k.key == key || k.key == spec.grammar.origin)) {
            *known_seen.entry(format!("{} {} :: {}", k.class, k.key, k.what)).or_default() += 1;
            continue;
        }
        violations += 1;
        if dry || reported.contains(&f.class) || n_replay >= 4 {
            continue;
        }
        reported.insert(f.class.clone());
        let (ms, mf) = if f.class == "no-answer" {
            // every candidate would cost a full time-out: the replay is the grammar itself
            (spec.clone(), f.clone())
        } else {
            minimise(spec, f, b.cap, b.k_limit)
        };
        let body = json!({
            "engine": "cache-sim", "property": PROPERTY, "seed": seed.to_string(),
            "signature": {"class": mf.class, "step": mf.step}, "detail": mf.detail,
            "spec": ms, "cap": b.cap, "k_limit": b.k_limit,
        });
        let path = simcore::write_replay(PROPERTY, seed, n_replay, &body).unwrap_or_else(|e| harness_error(&format!("replay: {e}")));
        n_replay += 1;
        println!("violation: {} at step {} of {} ({} ops after minimisation): {}", f.class, f.step, spec.grammar.origin, ms.ops.len(), mf.detail.chars().take(400).collect::<String>());
        println!("VIOLATION property={PROPERTY} replay={}", path.display());
    }
    for (k, n) in &known_seen {
        println!("KNOWN-FINDING: property={PROPERTY} {k} (seen {n}x)");
    }

    let wall = t0.elapsed().as_secs_f64();
    let mut ev = Evidence::new(PROPERTY, tier, seed);
    ev.evaluations = answers;
    ev.distinct_nontrivial = states.len() as u64;
    ev.rule = "one evaluation = one answer of the real FirstCache/FollowCache API (get, first_k, follow_k, decidable, explain_conflicts, calculate_k_tuples) inside a seeded request history with slot evictions, compared with the same call on fresh caches and - for k >= 1 within the reference bound - with the executable definition (least fixpoint over k-truncated concatenation). distinct_nontrivial = distinct (populated FIRST-slot bitmask, populated FOLLOW-slot bitmask, requested k) states with at least one populated slot at the time of a request.".into();
    ev.samples = results.iter().filter_map(|r| r.spec.as_ref()).take(2).map(|s| json!({"origin": s.grammar.origin, "transform": s.grammar.transform, "grammar": s.grammar.text, "ops": s.ops})).collect();
    ev.violations = violations;
    ev.wall_s = wall;
    ev.set("runs", json!(results.len()));
    ev.set("usable_runs", json!(usable));
    ev.set("distinct_grammars", json!(grammars.len()));
    ev.set("runs_per_hour", json!((results.len() as f64 / wall.max(0.001) * 3600.0) as u64));
    ev.set("definition_checks", json!(defchecks));
    ev.set("kmax_histogram", json!(kmax_hist));
    ev.set("faults_fired", json!({"slot_eviction": evictions, "slot_eviction_of_populated_slot": evict_pop}));
    ev.set("probes", json!({"first_request_k_ge_2(descending start)": desc, "panics_same_on_fresh_caches": panics}));
    ev.set("event_log_hash", json!(log.hex()));
    ev.set("sim_time_ms", json!(0));
    ev.set("known_findings_seen", json!(known_seen));
    ev.set("real_components", json!(["parol::analysis first_k, follow_k, FirstCache, FollowCache, decidable, explain_conflicts, calculate_k_tuples, KTuples/KTuple (path dependency on /repo)", "parol grammar parser and check_and_transform_grammar for preparing the grammars"]));
    ev.set("stubbed_components", json!(["none (reference model: /verif/cache-sim/src/reference.rs)"]));
    ev.assumptions = vec![
        "terminal / non-terminal numbering is taken from parol (C18's subject)".into(),
        "k = 0 is checked for history independence only (representation convention of the end marker, DESIGN §5.3)".into(),
        "the reference model is bounded by a cap on the total number of tuples; requests never exceed the k it reached".into(),
    ];
    if !dry {
        if let Err(e) = ev.write() {
            harness_error(&format!("cannot write evidence: {e}"));
        }
    }
    println!(
        "cache-sim: {} runs ({} usable, {} grammars) in {:.1}s, {} answers, {} definition checks, {} cache states, {} evictions, violations {}, log={}",
        results.len(), usable, grammars.len(), wall, answers, defchecks, states.len(), evictions, violations, log.hex()
    );
    if violations > 0 {
        simcore::EXIT_VIOLATION
    } else {
        println!("OK property={PROPERTY} held on everything explored");
        simcore::EXIT_OK
    }
}

fn replay(path: &Path) -> i32 {
    let v = simcore::read_json(path).unwrap_or_else(|e| harness_error(&e));
    let spec: RunSpec = serde_json::from_value(v["spec"].clone()).unwrap_or_else(|e| harness_error(&format!("replay spec: {e}")));
    let cap = v["cap"].as_u64().unwrap_or(6000) as usize;
    let k_limit = v["k_limit"].as_u64().unwrap_or(6) as usize;
    let timeout = std::time::Duration::from_secs(std::env::var("VERIF_C06_TIMEOUT").ok().and_then(|s| s.parse().ok()).unwrap_or(120));
    let (tx, rx) = std::sync::mpsc::channel();
    let spec2 = spec.clone();
    let _ = std::thread::Builder::new().stack_size(64 << 20).spawn(move || {
        let _ = tx.send(run_spec(&spec2, cap, k_limit, None));
    });
    let outcome = match rx.recv_timeout(timeout) {
        Ok(r) => r,
        Err(_) => Ok(Some(Finding { class: "no-answer".into(), step: 0, detail: format!("did not finish within {} s", timeout.as_secs()) })),
    };
    match outcome {
        Err(e) => {
            println!("replay: {e} - not reproduced");
            simcore::EXIT_OK
        }
        Ok(None) => {
            println!("replay: not reproduced - every answer matches fresh caches and the definition");
            simcore::EXIT_OK
        }
        Ok(Some(f)) => {
            let same = v["signature"]["class"].as_str() == Some(&f.class) && v["signature"]["step"].as_u64() == Some(f.step as u64);
            println!("replay: reproduced {} at step {} ({}): {}", f.class, f.step, if same { "same signature" } else { "signature differs from the recorded one" }, f.detail.chars().take(300).collect::<String>());
            println!("VIOLATION property={PROPERTY} replay={}", path.display());
            simcore::EXIT_VIOLATION
        }
    }
}

fn run_selfcheck() -> i32 {
    let exe = std::env::current_exe().unwrap();
    let dir = simcore::verif_root().join("scratch").join("cache-selfcheck").join(std::process::id().to_string());
    let _ = std::fs::create_dir_all(&dir);
    let mut logs = vec![];
    for (n, workers) in [(0, "16"), (1, "3")] {
        let log = dir.join(format!("log-{n}.txt"));
        let st = std::process::Command::new(&exe)
            .args(["--tier", "quick", "--emit-log"])
            .arg(&log)
            .env("VERIF_WORKERS", workers)
            .stdout(std::process::Stdio::null())
            .status();
        match st {
            Ok(s) if matches!(s.code(), Some(0) | Some(1)) => {}
            other => harness_error(&format!("selfcheck child failed: {other:?}")),
        }
        logs.push(std::fs::read_to_string(&log).unwrap_or_default());
    }
    let _ = std::fs::remove_dir_all(&dir);
    if logs[0].is_empty() || logs[0] != logs[1] {
        println!("HARNESS-ERROR: determinism self-check failed: event logs differ between two processes");
        return simcore::EXIT_HARNESS;
    }
    println!("selfcheck: {} run logs identical across two processes (16 vs 3 workers)", logs[0].lines().count());
    simcore::EXIT_OK
}

fn main() {
    // The code under test runs in this process; a stack overflow or abort in it (possible after a
    // change to the repository) would take the checker down with an arbitrary exit status.  The
    // outer process only supervises: it re-executes itself with VERIF_C06_INNER=1 and maps
    // "died on a signal / unknown status" to the harness-error exit code.
    if std::env::var_os("VERIF_C06_INNER").is_none() {
        let exe = std::env::current_exe().unwrap();
        let st = std::process::Command::new(exe)
            .args(std::env::args().skip(1))
            .env("VERIF_C06_INNER", "1")
            .status();
        match st {
            Ok(s) if matches!(s.code(), Some(0) | Some(1) | Some(2)) => std::process::exit(s.code().unwrap()),
            other => {
                println!("HARNESS-ERROR: the checking process died ({other:?}): a FIRST/FOLLOW computation overflowed the stack or aborted the process. This is not a verdict.");
                std::process::exit(simcore::EXIT_HARNESS);
            }
        }
    }
    let args: Vec<String> = std::env::args().collect();
    let mut tier = simcore::env_tier();
    let mut replay_file: Option<PathBuf> = None;
    let mut emit_log: Option<PathBuf> = None;
    let mut selfcheck = false;
    let mut i = 1;
    while i < args.len() {
        match args[i].as_str() {
            "--tier" => {
                i += 1;
                tier = if args.get(i).map(|s| s.as_str()) == Some("thorough") { Tier::Thorough } else { Tier::Quick };
            }
            "--replay" => {
                i += 1;
                replay_file = args.get(i).map(PathBuf::from);
            }
            "--emit-log" => {
                i += 1;
                emit_log = args.get(i).map(PathBuf::from);
            }
            "--selfcheck" => selfcheck = true,
            other => harness_error(&format!("unknown argument {other}")),
        }
        i += 1;
    }
    std::panic::set_hook(Box::new(|_| {}));
    let code = if let Some(p) = replay_file {
        replay(&p)
    } else if selfcheck {
        run_selfcheck()
    } else {
        run_batch(tier, emit_log.as_deref())
    };
    std::process::exit(code);
}
